//! C10 — a failed proof leaves the facts untouched; undo frames are transactional.
//!
//! Part A: backward-chaining queries (generator of C09, biased to proofs that
//! derive intermediate facts and then fail); oracle: whenever the query is
//! reported not provable, `get_all_facts()` after equals before.
//! Part B: sequences of begin/commit/rollback/set/set_nested/remove on one
//! `Facts`; oracle: a stack of full deep snapshots.

use crate::bc::*;
use crate::c09::{describe, run_query, shape};
use crate::core::*;
use crate::runner::*;
use crate::typed::*;
use rust_rule_engine::types::Value;
use rust_rule_engine::Facts;
use std::collections::BTreeMap;

pub fn run_a(s: &mut Src, ctx: &mut Ctx) -> Verdict {
    let cfg = gen_cfg(s, false);
    let max_rules = if cfg.max_depth >= 5 { 5 } else { 8 };
    let mut kb = gen_kb(s, max_rules, Some(false));
    let mut st = crate::bc::gen_store(s, &kb);
    let goal = gen_goal(s, &kb);
    apply_str_style(s, &mut kb, &mut st);
    // drawn last (saved cases keep decoding): one case in three has rules one of whose actions fails when it runs (a
    // method call on an object that no fact holds), before, between or after their assignments; one case in four is
    // asked by a caller who has an undo frame of their own open, with a change of their own in it
    if s.chance(1, 3) {
        for r in kb.rules.iter_mut() {
            if s.bool() {
                r.fails_at = Some(s.below(r.heads.len() + 1));
            }
        }
    }
    let caller_frame = s.chance(1, 4);
    // and after that: one case in four has rules that are switched off (present in the knowledge base, `enabled = false`)
    if s.chance(1, 4) {
        for r in kb.rules.iter_mut() {
            if s.chance(1, 3) {
                r.disabled = true;
            }
        }
    }
    if probe_only() {
        return Verdict::Pass;
    }
    ctx.describe(|| format!("{}{}", describe(&kb, &st, &goal, &cfg), if caller_frame { "\n  the caller has an undo frame open around the query, holding Caller.note = 7" } else { "" }));
    if kb.rules.iter().any(|r| r.fails_at.is_some()) {
        ctx.label("rule-with-action-that-fails-at-run-time");
    }
    if kb.rules.iter().any(|r| r.disabled) {
        ctx.label("knowledge-base-holds-a-disabled-rule");
    }
    if caller_frame {
        ctx.label("caller-has-undo-frame-open");
        match run_query_in_caller_frame(&kb, &st, &goal, &cfg) {
            Ok(None) => {}
            Ok(Some(v)) => return v,
            Err(e) => {
                let l = if e.starts_with("panic") { "engine-panic" } else { "engine-error" };
                ctx.label(l);
                return Verdict::Discard(l);
            }
        }
    }
    let out = match run_query(&kb, &st, &goal, &cfg) {
        Ok(o) => o,
        Err(e) => {
            let l = if e.starts_with("panic") { "engine-panic" } else { "engine-error" };
            ctx.label(l);
            return Verdict::Discard(l);
        }
    };
    let strat = match cfg.strat {
        Strat::Dfs => "dfs",
        Strat::Bfs => "bfs",
        Strat::Iter => "iterative",
    };
    // did the attempt have something to execute? (some rule's condition true on the initial facts)
    let executed_something = kb.rules.iter().any(|r| eval_cond(&r.cond, &st) == T3::True);
    if !out.provable {
        ctx.label("not-provable");
        if out.after != st {
            let mut diff = Vec::new();
            for (k, v) in &out.after.top {
                if st.top.get(k) != Some(v) {
                    diff.push(format!("{} = {} (was {})", k, v.grl(), st.top.get(k).map(|x| x.grl()).unwrap_or_else(|| "absent".into())));
                }
            }
            for k in st.top.keys() {
                if !out.after.top.contains_key(k) {
                    diff.push(format!("{} removed", k));
                }
            }
            return Verdict::fail(format!("failed-proof-changed-facts:{}", strat), format!("query `{}` reported not provable but the facts changed: {}", goal.text(), diff.join(", ")));
        }
        if out.undo_depth_after != 0 {
            ctx.label("undo-frames-leaked-after-failed-proof");
        }
        let sh = shape(&kb, &st);
        if executed_something && (sh.wrong_value || sh.dead_end || sh.and_two_derivable) {
            ctx.label("attempt-executed-a-rule");
            ctx.nontrivial(hash_case(&kb, &st, &format!("{}{:?}", goal.text(), cfg)));
        }
    } else {
        ctx.label("provable");
        if out.undo_depth_after != 0 {
            ctx.label("undo-frames-left-open-after-success");
        }
    }
    Verdict::Pass
}

/// The caller opens an undo frame, changes a fact of their own inside it, asks, and -- when the answer is "not
/// provable" -- finds the facts exactly as they were at the call (their own change included); rolling their frame back
/// afterwards then takes exactly their own change away again (the second half of the statement: the frame is still
/// theirs, whatever frames the search began, committed or rolled back in between).
fn run_query_in_caller_frame(kb: &Kb, st: &Store, goal: &GoalQ, cfg: &Cfg) -> Result<Option<Verdict>, String> {
    let mut engine = build_engine(kb, cfg);
    let mut facts = to_facts(st);
    let before_frame = snap_of(&facts);
    facts.begin_undo_frame();
    facts.set("Caller.note", Value::Integer(7));
    let at_call = snap_of(&facts);
    let text = goal.text();
    let r = match crate::core::catch(|| engine.query(&text, &mut facts)) {
        Err(p) => return Err(format!("panic:{}", p)),
        Ok(Err(e)) => return Err(format!("error:{}", e)),
        Ok(Ok(r)) => r,
    };
    if r.provable {
        return Ok(None);
    }
    let after = snap_of(&facts);
    if after != at_call {
        return Ok(Some(Verdict::fail(
            "failed-proof-changed-facts:caller-frame-open",
            format!("query `{}` reported not provable, asked inside the caller's own undo frame: facts at the call {:?}, after it {:?}", text, at_call, after),
        )));
    }
    facts.rollback_undo_frame();
    let rolled = snap_of(&facts);
    if rolled != before_frame {
        return Ok(Some(Verdict::fail(
            "caller-frame-lost-during-failed-proof",
            format!("query `{}` reported not provable; the caller then rolled back the frame they had opened before the call: facts {:?}, at the beginning of that frame {:?}", text, rolled, before_frame),
        )));
    }
    Ok(None)
}

// ------------------------------------------------------------------ part B

#[derive(Clone, Debug, Hash, PartialEq)]
enum FOp {
    Begin,
    Commit,
    Rollback,
    Set(usize, i64),
    SetNested(usize, i64),
    Remove(usize),
}

const KEYS: [&str; 3] = ["k1", "k2", "k3"];

type Snap = BTreeMap<String, V>;

fn snap_of(f: &Facts) -> Snap {
    f.get_all_facts().iter().map(|(k, v)| (k.clone(), V::from_engine(v))).collect()
}

fn gen_fops(s: &mut Src, exh: u32) -> Vec<FOp> {
    let n = if exh > 0 { exh as usize } else { 1 + s.below(10) };
    (0..n)
        .map(|_| {
            if exh > 0 {
                // 3 frame ops + 3 keys x (set v1, set v2, set_nested v1, remove) = 15 letters
                match s.below(15) {
                    0 => FOp::Begin,
                    1 => FOp::Commit,
                    2 => FOp::Rollback,
                    x => {
                        let k = (x - 3) / 4;
                        match (x - 3) % 4 {
                            0 => FOp::Set(k, 1),
                            1 => FOp::Set(k, 2),
                            2 => FOp::SetNested(k, 2),
                            _ => FOp::Remove(k),
                        }
                    }
                }
            } else {
                match s.weighted(&[3, 2, 3, 4, 2, 2]) {
                    0 => FOp::Begin,
                    1 => FOp::Commit,
                    2 => FOp::Rollback,
                    3 => FOp::Set(s.below(3), 1 + s.below(2) as i64),
                    4 => FOp::SetNested(s.below(3), 1 + s.below(2) as i64),
                    _ => FOp::Remove(s.below(3)),
                }
            }
        })
        .collect()
}

/// bit-exact comparison of two snapshots (`0.0 == -0.0` under `==`, but they are different values: other bits, other text)
fn same_snap(a: &Snap, b: &Snap) -> bool {
    format!("{:?}", a) == format!("{:?}", b)
}

pub fn run_b(s: &mut Src, ctx: &mut Ctx) -> Verdict {
    let ops = gen_fops(s, ctx.exh);
    if probe_only() {
        return Verdict::Pass;
    }
    // One case in four (by the case's salt; in the exhaustive parts too) writes floats instead of integers: 0 is 0.0,
    // 1 is -0.0, 2 is 0.0 again -- a key is then overwritten inside a frame by the zero of the other sign, which a
    // rollback has to take back like any other change.
    let zeros = crate::core::case_bit(6) && crate::core::case_bit(21);
    let val = |v: i64| -> (Value, V) {
        if zeros {
            let f = if v == 1 { -0.0 } else { 0.0 };
            (Value::Number(f), V::Float(f))
        } else {
            (Value::Integer(v), V::Int(v))
        }
    };
    ctx.describe(|| format!("start: k1 = 0, k2 = {{f: 0}}, k3 absent; ops: {:?}{}", ops, if zeros { " (values are floats: 0 = 0.0, 1 = -0.0, 2 = 0.0)" } else { "" }));
    if zeros {
        ctx.label("signed-zeros");
    }
    let facts = Facts::new();
    facts.set("k1", val(0).0);
    let mut o = std::collections::HashMap::new();
    o.insert("f".to_string(), val(0).0);
    facts.set("k2", Value::Object(o));
    let mut model: Snap = snap_of(&facts);
    let mut stack: Vec<Snap> = Vec::new();
    let mut max_depth = 0usize;
    let mut inner_write_then_outer_end = false;
    let mut wrote_at_depth: Vec<bool> = Vec::new(); // per open frame: a write happened in it or in a committed child
    let mut nested_write_pending = false;
    for (i, op) in ops.iter().enumerate() {
        match op {
            FOp::Begin => {
                facts.begin_undo_frame();
                stack.push(model.clone());
                wrote_at_depth.push(false);
            }
            FOp::Commit => {
                facts.commit_undo_frame();
                if stack.pop().is_some() {
                    let w = wrote_at_depth.pop().unwrap_or(false);
                    if let Some(p) = wrote_at_depth.last_mut() {
                        if w {
                            nested_write_pending = true;
                        }
                        *p |= w;
                    }
                }
            }
            FOp::Rollback => {
                facts.rollback_undo_frame();
                if let Some(sn) = stack.pop() {
                    model = sn;
                    wrote_at_depth.pop();
                    if nested_write_pending {
                        inner_write_then_outer_end = true;
                    }
                    if stack.is_empty() {
                        nested_write_pending = false;
                    }
                }
            }
            FOp::Set(k, v) => {
                facts.set(KEYS[*k], val(*v).0);
                model.insert(KEYS[*k].to_string(), val(*v).1);
                if let Some(w) = wrote_at_depth.last_mut() {
                    *w = true;
                }
            }
            FOp::SetNested(k, v) => {
                let r = facts.set_nested(&format!("{}.f", KEYS[*k]), val(*v).0);
                let expect_ok = matches!(model.get(KEYS[*k]), Some(V::Obj(_)));
                if r.is_ok() != expect_ok {
                    return Verdict::fail("set-nested-result", format!("op {}: set_nested returned {:?} but the root is {:?}", i, r.is_ok(), model.get(KEYS[*k])));
                }
                if let Some(V::Obj(m)) = model.get_mut(KEYS[*k]) {
                    m.insert("f".into(), val(*v).1);
                    if let Some(w) = wrote_at_depth.last_mut() {
                        *w = true;
                    }
                }
            }
            FOp::Remove(k) => {
                facts.remove(KEYS[*k]);
                if model.remove(KEYS[*k]).is_some() {
                    if let Some(w) = wrote_at_depth.last_mut() {
                        *w = true;
                    }
                }
            }
        }
        max_depth = max_depth.max(stack.len());
        let got = snap_of(&facts);
        if !same_snap(&got, &model) {
            let kind = match op {
                FOp::Rollback => "after-rollback",
                FOp::Commit => "after-commit",
                FOp::Begin => "after-begin",
                _ => "after-write",
            };
            return Verdict::fail(format!("undo-frames:{}", kind), format!("op {} {:?}: facts {:?} but the snapshot-stack model says {:?}", i, op, got, model));
        }
        let sn = facts.snapshot();
        let via_snapshot: Snap = sn.data.iter().map(|(k, v)| (k.clone(), V::from_engine(v))).collect();
        if !same_snap(&via_snapshot, &model) {
            return Verdict::fail("undo-frames:snapshot-view", format!("op {}: snapshot() differs from get_all_facts()", i));
        }
        if facts.verif_undo_depth() != stack.len() {
            return Verdict::fail("undo-frames:depth", format!("op {}: {} frames open but the model has {}", i, facts.verif_undo_depth(), stack.len()));
        }
    }
    if max_depth >= 2 {
        ctx.label("nested>=2");
    }
    if inner_write_then_outer_end {
        ctx.label("inner-write-committed-then-outer-rolled-back");
    }
    if max_depth >= 2 && ops.iter().any(|o| matches!(o, FOp::Rollback | FOp::Commit)) && ops.iter().any(|o| matches!(o, FOp::Set(..) | FOp::SetNested(..) | FOp::Remove(..))) {
        ctx.nontrivial(hash_of(&ops));
    }
    Verdict::Pass
}

// ------------------------------------------------------------------ part B': deeper paths

/// Part `frames-deep`: the same snapshot-stack oracle over paths of one, two and THREE segments (`set_nested` accepts
/// any depth: `cfg.limits.max`), on roots that are objects nested two levels deep, scalars, or absent, with writes
/// that replace a sub-object by a scalar (so that a later deeper write fails) and that re-create the nested object.
/// Own generator and alphabet: the byte-encoded cases of part `frames` keep their meaning.
#[derive(Clone, Debug, Hash, PartialEq)]
enum DOp {
    Begin,
    Commit,
    Rollback,
    /// set(k, scalar)
    Set(usize, i64),
    /// set(k, {f: 0, g: {h: 0}})
    SetObj(usize),
    /// set_nested(path, scalar): path index into DPATHS
    Nested(usize, i64),
    Remove(usize),
    /// set(FLAT[i], scalar): a top-level key whose NAME contains dots and extends another key ("k2.f" next to the
    /// object k2) - an independent key as far as the store is concerned
    SetFlat(usize, i64),
    RemoveFlat(usize),
}
const FLAT: [&str; 3] = ["k2.f", "k2.g.h", "k1.x"];
const DKEYS: [&str; 2] = ["k1", "k2"];
const DPATHS: [&str; 8] = ["k2.f", "k2.g.h", "k2.g", "k2", "k1.f", "k1.g.h", "k2.g.h.x", "k2.n.h"];

fn nested_obj() -> V {
    let mut g = BTreeMap::new();
    g.insert("h".to_string(), V::Int(0));
    let mut o = BTreeMap::new();
    o.insert("f".to_string(), V::Int(0));
    o.insert("g".to_string(), V::Obj(g));
    V::Obj(o)
}

/// what `set_nested` is documented to do: every segment but the last must name an existing object
fn model_set_nested(m: &mut Snap, path: &str, v: V) -> bool {
    let parts: Vec<&str> = path.split('.').collect();
    if parts.len() == 1 {
        m.insert(parts[0].to_string(), v);
        return true;
    }
    let mut cur: &mut V = match m.get_mut(parts[0]) {
        Some(x) => x,
        None => return false,
    };
    for seg in &parts[1..parts.len() - 1] {
        cur = match cur {
            V::Obj(o) => match o.get_mut(*seg) {
                Some(x) => x,
                None => return false,
            },
            _ => return false,
        };
    }
    match cur {
        V::Obj(o) => {
            o.insert(parts[parts.len() - 1].to_string(), v);
            true
        }
        _ => false,
    }
}

fn gen_dops(s: &mut Src, exh: u32) -> Vec<DOp> {
    let n = if exh > 0 { exh as usize } else { 2 + s.below(9) };
    (0..n)
        .map(|_| {
            if exh > 0 {
                // 3 frame ops + set k2 scalar + set k2 object + remove k2 + 5 nested paths + set of the flat key "k2.f" = 12 letters
                match s.below(12) {
                    0 => DOp::Begin,
                    1 => DOp::Commit,
                    2 => DOp::Rollback,
                    3 => DOp::Set(1, 1),
                    4 => DOp::SetObj(1),
                    5 => DOp::Remove(1),
                    11 => DOp::SetFlat(0, 1),
                    x => DOp::Nested(x - 6, 1),
                }
            } else {
                match s.weighted(&[6, 2, 5, 2, 2, 8, 2, 3, 1]) {
                    7 => DOp::SetFlat(s.below(3), 1 + s.below(2) as i64),
                    8 => DOp::RemoveFlat(s.below(3)),
                    0 => DOp::Begin,
                    1 => DOp::Commit,
                    2 => DOp::Rollback,
                    3 => DOp::Set(s.below(2), 1 + s.below(2) as i64),
                    4 => DOp::SetObj(s.below(2)),
                    5 => {
                        // mostly the paths that can succeed
                        let p = if s.chance(3, 4) { [1usize, 0, 1, 2, 1, 3][s.below(6)] } else { 4 + s.below(4) };
                        DOp::Nested(p, 1 + s.below(2) as i64)
                    }
                    _ => DOp::Remove(s.below(2)),
                }
            }
        })
        .collect()
}

pub fn run_b_deep(s: &mut Src, ctx: &mut Ctx) -> Verdict {
    let ops = gen_dops(s, ctx.exh);
    if probe_only() {
        return Verdict::Pass;
    }
    ctx.describe(|| {
        format!(
            "start: k1 = 0, k2 = {{f: 0, g: {{h: 0}}}}; ops: {}",
            ops.iter()
                .map(|o| match o {
                    DOp::Nested(p, v) => format!("set_nested({}, {})", DPATHS[*p], v),
                    DOp::Set(k, v) => format!("set({}, {})", DKEYS[*k], v),
                    DOp::SetObj(k) => format!("set({}, {{f: 0, g: {{h: 0}}}})", DKEYS[*k]),
                    DOp::Remove(k) => format!("remove({})", DKEYS[*k]),
                    DOp::SetFlat(k, v) => format!("set(flat key \"{}\", {})", FLAT[*k], v),
                    DOp::RemoveFlat(k) => format!("remove(flat key \"{}\")", FLAT[*k]),
                    x => format!("{:?}", x).to_lowercase(),
                })
                .collect::<Vec<_>>()
                .join("; ")
        )
    });
    let facts = Facts::new();
    // a store that is not new: many unrelated keys were set, rolled back, committed and removed before (a pure function of
    // the case length, no draw)
    if ops.len() % 3 == 0 {
        for w in 0..70 {
            facts.set(&format!("w{}", w), Value::Integer(w));
        }
        facts.begin_undo_frame();
        for w in 0..70 {
            facts.remove(&format!("w{}", w));
        }
        facts.commit_undo_frame();
    }
    facts.set("k1", Value::Integer(0));
    facts.set("k2", nested_obj().to_engine());
    let mut model: Snap = snap_of(&facts);
    let mut stack: Vec<Snap> = Vec::new();
    let mut deep_write_in_frame = false;
    let mut deep_write_then_rollback = false;
    let mut failed_nested_in_frame = false;
    for (i, op) in ops.iter().enumerate() {
        match op {
            DOp::Begin => {
                facts.begin_undo_frame();
                stack.push(model.clone());
            }
            DOp::Commit => {
                facts.commit_undo_frame();
                stack.pop();
                if stack.is_empty() {
                    deep_write_in_frame = false;
                }
            }
            DOp::Rollback => {
                facts.rollback_undo_frame();
                if let Some(sn) = stack.pop() {
                    model = sn;
                    if deep_write_in_frame {
                        deep_write_then_rollback = true;
                    }
                }
                if stack.is_empty() {
                    deep_write_in_frame = false;
                }
            }
            DOp::Set(k, v) => {
                facts.set(DKEYS[*k], Value::Integer(*v));
                model.insert(DKEYS[*k].to_string(), V::Int(*v));
            }
            DOp::SetObj(k) => {
                facts.set(DKEYS[*k], nested_obj().to_engine());
                model.insert(DKEYS[*k].to_string(), nested_obj());
            }
            DOp::Nested(p, v) => {
                let path = DPATHS[*p];
                let r = facts.set_nested(path, Value::Integer(*v));
                let ok = model_set_nested(&mut model, path, V::Int(*v));
                if r.is_ok() != ok {
                    return Verdict::fail("set-nested-result", format!("op {}: set_nested({}) returned Ok={} but every segment before the last {} an existing object", i, path, r.is_ok(), if ok { "names" } else { "does not name" }));
                }
                if !stack.is_empty() {
                    if ok && path.matches('.').count() >= 2 {
                        deep_write_in_frame = true;
                    }
                    if !ok {
                        failed_nested_in_frame = true;
                    }
                }
            }
            DOp::Remove(k) => {
                facts.remove(DKEYS[*k]);
                model.remove(DKEYS[*k]);
            }
            DOp::SetFlat(k, v) => {
                facts.set(FLAT[*k], Value::Integer(*v));
                model.insert(FLAT[*k].to_string(), V::Int(*v));
                if !stack.is_empty() {
                    ctx.label("flat-dotted-key-written-inside-a-frame");
                }
            }
            DOp::RemoveFlat(k) => {
                facts.remove(FLAT[*k]);
                model.remove(FLAT[*k]);
            }
        }
        let got = snap_of(&facts);
        if got != model {
            let kind = match op {
                DOp::Rollback => "after-rollback",
                DOp::Commit => "after-commit",
                DOp::Begin => "after-begin",
                _ => "after-write",
            };
            return Verdict::fail(format!("undo-frames:{}:deep-paths", kind), format!("op {} {:?}: facts {:?} but the snapshot-stack model says {:?}", i, op, got, model));
        }
        if facts.verif_undo_depth() != stack.len() {
            return Verdict::fail("undo-frames:depth", format!("op {}: {} frames open but the model has {}", i, facts.verif_undo_depth(), stack.len()));
        }
    }
    if deep_write_then_rollback {
        ctx.label("three-segment-write-inside-a-frame-that-is-rolled-back");
    }
    if failed_nested_in_frame {
        ctx.label("failed-set_nested-inside-a-frame");
    }
    if deep_write_then_rollback || (failed_nested_in_frame && ops.iter().any(|o| matches!(o, DOp::Rollback))) {
        ctx.nontrivial(hash_of(&ops));
    }
    Verdict::Pass
}

pub fn property() -> Property {
    Property {
        id: "C10",
        level: "exploration",
        rule: "part queries: the C09 generator restricted to non-monotone Horn KBs (wrong-value conclusions, side assignments, dead ends, cycles) x stores x goals x {DFS,BFS,Iterative} x max_depth 0..6 x max_solutions {1,3}; oracle: whenever the query is reported not provable, get_all_facts() after equals before (deep equality); leaked undo frames are reported as labels. Non-trivial: the query was not provable, some rule's condition was true on the initial facts (so the attempt executed something) and the KB has a wrong-value rule / dead end / And of two derivable sub-goals. Part frames: sequences over {begin, commit, rollback, set(k,v), set_nested(k.f,v), remove(k)} on 3 keys x 2 values starting from k1 scalar, k2 object, k3 absent: random of length 1..10 and exhaustive enumeration of all sequences of length 5 (quick) / 6 (thorough) over a 15-letter alphabet; oracle: stack of full deep snapshots (begin pushes, rollback pops and restores, commit pops and discards; both are no-ops on an empty stack), compared with get_all_facts() and snapshot() after every operation, plus the open-frame count (hook). Non-trivial: >= 2 nested frames with a write and a commit/rollback; distinct by operation sequence. Part frames-deep: the same oracle over set_nested paths of one, two and three segments (k2.g.h) on roots that are objects nested two levels deep, scalars or absent, with writes that replace a sub-object by a scalar (a later deeper write must fail and change nothing) and that re-create the object, plus set/remove of FLAT top-level keys whose names extend another key (\"k2.f\" next to the object k2): random of length 2..10 and exhaustive over a 12-letter alphabet to length 5 / 6; non-trivial: a three-segment write inside a frame that is rolled back, or a failed set_nested inside a frame followed by a rollback. Part queries, drawn last: 1 case in 3 has rules with an action that fails at run time (Missing.poke(), before / between / after the assignments); 1 case in 4 is asked inside a caller-owned undo frame that holds a change of the caller's (facts at the call = facts after a 'not provable'; the caller's rollback then restores the state at the beginning of their frame); 1 case in 4 has rules that are disabled (each with probability 1/3). Parts frames*: 1 case in 4 writes floats (0.0 / -0.0) instead of integers; snapshots are compared bit-exactly (by their Debug text).",
        assumptions: vec!["engine panics/errors during a query are counted, not judged".into()],
        parts: vec![
            Part { name: "queries", run: run_a, quick: Budget::Random { cases: 300_000, bytes: 300 }, thorough: Budget::Random { cases: 10_000_000, bytes: 300 }, min_nontrivial_pct: 15 },
            Part { name: "frames", run: run_b, quick: Budget::Random { cases: 3_000_000, bytes: 40 }, thorough: Budget::Random { cases: 40_000_000, bytes: 40 }, min_nontrivial_pct: 15 },
            Part { name: "frames-exh5", run: run_b, quick: Budget::Exhaustive { param: 5 }, thorough: Budget::Exhaustive { param: 5 }, min_nontrivial_pct: 0 },
            Part { name: "frames-exh6", run: run_b, quick: Budget::Skip, thorough: Budget::Exhaustive { param: 6 }, min_nontrivial_pct: 0 },
            Part { name: "frames-deep", run: run_b_deep, quick: Budget::Random { cases: 2_000_000, bytes: 48 }, thorough: Budget::Random { cases: 30_000_000, bytes: 48 }, min_nontrivial_pct: 10 },
            Part { name: "frames-deep-exh5", run: run_b_deep, quick: Budget::Exhaustive { param: 5 }, thorough: Budget::Exhaustive { param: 5 }, min_nontrivial_pct: 0 },
            Part { name: "frames-deep-exh6", run: run_b_deep, quick: Budget::Skip, thorough: Budget::Exhaustive { param: 6 }, min_nontrivial_pct: 0 },
        ],
        watchdog: true,
        replay_reps: 3,
    }
}
