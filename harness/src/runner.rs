//! Seeded runner: proptest-driven random search over byte strings decoded by
//! the property's generator, exhaustive small-scope enumeration over choice
//! vectors, corpus replay, known-findings handling, evidence writing.

use crate::core::*;
use crate::findings::{self, Finding};
use proptest::test_runner::{Config, RngSeed, TestCaseError, TestError, TestRunner};
use serde_json::json;
use std::cell::RefCell;
use std::collections::{BTreeMap, HashSet};
use std::io::Write;
use std::os::unix::fs::FileExt;
use std::sync::atomic::{AtomicU64, Ordering};
use std::time::Instant;

pub type RunFn = fn(&mut Src, &mut Ctx) -> Verdict;

#[derive(Clone, Copy, Debug)]
pub enum Budget {
    /// `cases` byte strings of `bytes/4 ..= bytes` bytes
    Random { cases: u64, bytes: usize },
    /// enumerate the whole choice tree of the generator run with `ctx.exh = param`
    Exhaustive { param: u32 },
    Skip,
}

pub struct Part {
    pub name: &'static str,
    pub run: RunFn,
    pub quick: Budget,
    pub thorough: Budget,
    /// minimal share (percent) of non-trivial cases among judged ones; below → exit 2
    pub min_nontrivial_pct: u32,
}

pub struct Property {
    pub id: &'static str,
    pub level: &'static str,
    pub rule: &'static str,
    pub assumptions: Vec<String>,
    pub parts: Vec<Part>,
    /// run under the hang/crash watchdog with per-case progress slots
    pub watchdog: bool,
    /// times a replay re-executes its case (HashMap order / schedule diversity)
    pub replay_reps: u32,
}

#[derive(Default, Clone)]
pub struct Stats {
    pub evaluations: u64,
    pub judged: u64,
    pub discards: BTreeMap<&'static str, u64>,
    pub labels: BTreeMap<&'static str, u64>,
    pub excluded: BTreeMap<&'static str, u64>,
    pub known_hits: BTreeMap<String, u64>,
    pub nontrivial: HashSet<u64>,
    /// exhaustive parts: every leaf is a distinct case by construction, so non-trivial leaves are counted, not hashed
    pub nontrivial_counted: u64,
    pub nontrivial_total: u64,
    pub samples: Vec<String>,
    pub trivial_samples: Vec<String>,
    pub exhaustive: bool,
}

impl Stats {
    fn merge(&mut self, o: Stats) {
        self.evaluations += o.evaluations;
        self.judged += o.judged;
        for (k, v) in o.discards {
            *self.discards.entry(k).or_default() += v;
        }
        for (k, v) in o.labels {
            *self.labels.entry(k).or_default() += v;
        }
        for (k, v) in o.excluded {
            *self.excluded.entry(k).or_default() += v;
        }
        for (k, v) in o.known_hits {
            *self.known_hits.entry(k).or_default() += v;
        }
        self.nontrivial.extend(o.nontrivial);
        self.nontrivial_counted += o.nontrivial_counted;
        self.nontrivial_total += o.nontrivial_total;
        for s in o.samples {
            if self.samples.len() < 8 {
                self.samples.push(s);
            }
        }
        for s in o.trivial_samples {
            if self.trivial_samples.len() < 2 {
                self.trivial_samples.push(s);
            }
        }
    }
    pub fn distinct(&self) -> u64 {
        self.nontrivial.len() as u64 + self.nontrivial_counted
    }
    fn absorb(&mut self, ctx: &Ctx, v: &Verdict) {
        self.absorb2(ctx, v, false)
    }
    fn absorb2(&mut self, ctx: &Ctx, v: &Verdict, exhaustive: bool) {
        self.evaluations += 1;
        for l in &ctx.labels {
            *self.labels.entry(l).or_default() += 1;
        }
        for e in &ctx.excluded {
            *self.excluded.entry(e).or_default() += 1;
        }
        match v {
            Verdict::Discard(r) => {
                *self.discards.entry(r).or_default() += 1;
            }
            _ => {
                self.judged += 1;
                if let Some(h) = ctx.nontrivial {
                    self.nontrivial_total += 1;
                    if exhaustive {
                        self.nontrivial_counted += 1;
                    } else {
                        self.nontrivial.insert(h);
                    }
                    if let Some(d) = &ctx.desc {
                        if self.samples.len() < 8 {
                            self.samples.push(d.clone());
                        }
                    }
                } else if let Some(d) = &ctx.desc {
                    if self.trivial_samples.len() < 2 {
                        self.trivial_samples.push(d.clone());
                    }
                }
            }
        }
    }
}

#[derive(Clone, Debug)]
pub enum CaseData {
    Bytes(Vec<u8>),
    Choices(Vec<u32>),
}

#[derive(Clone, Debug)]
pub struct Failure {
    pub part: &'static str,
    pub data: CaseData,
    pub exh: u32,
    pub sig: String,
    pub detail: String,
    pub desc: String,
}

pub struct RunEnv {
    pub thorough: bool,
    pub seed: u64,
    pub findings: Vec<Finding>,
    pub slot_dir: Option<std::path::PathBuf>,
}

pub fn exec_case(run: RunFn, data: &CaseData, exh: u32, thorough: bool, want_desc: bool, no_excl: bool) -> (Verdict, Ctx) {
    let mut ctx = Ctx::new(want_desc);
    ctx.exh = exh;
    ctx.thorough = thorough;
    ctx.no_exclusions = no_excl;
    let r = catch(|| match data {
        CaseData::Bytes(b) => {
            let mut s = Src::bytes(b);
            run(&mut s, &mut ctx)
        }
        CaseData::Choices(c) => {
            let mut s = Src::choices(c);
            run(&mut s, &mut ctx)
        }
    });
    let v = match r {
        Ok(v) => v,
        Err(p) => {
            let loc = p.split(": ").next().unwrap_or("?").to_string();
            Verdict::fail(format!("panic@{}", loc), p)
        }
    };
    (v, ctx)
}

/// Rendering of a case without executing it: the case runs up to its `ctx.describe` call and is left there. Used to
/// describe a failing case whose execution is expensive (a hang) or may not fail again (a race).
pub fn describe_case(run: RunFn, data: &CaseData, exh: u32, thorough: bool) -> String {
    let mut ctx = Ctx::new(true);
    ctx.exh = exh;
    ctx.thorough = thorough;
    DESCRIBE_ONLY.with(|d| d.set(true));
    let _ = std::panic::catch_unwind(std::panic::AssertUnwindSafe(|| match data {
        CaseData::Bytes(b) => {
            let mut s = Src::bytes(b);
            let _ = run(&mut s, &mut ctx);
        }
        CaseData::Choices(c) => {
            let mut s = Src::choices(c);
            let _ = run(&mut s, &mut ctx);
        }
    }));
    DESCRIBE_ONLY.with(|d| d.set(false));
    ctx.desc.unwrap_or_default()
}

static SLOT_COUNTER: AtomicU64 = AtomicU64::new(0);

/// set by the first worker of a part that records a failure: the other workers of that part stop searching
static PART_FAILED: std::sync::atomic::AtomicBool = std::sync::atomic::AtomicBool::new(false);

thread_local! {
    /// the slot record this worker published for the case in flight
    static LAST_PUBLISHED: RefCell<Option<(std::fs::File, Vec<u8>)>> = const { RefCell::new(None) };
}

/// A case made of several separately judged calls (a ladder of growing inputs) tells the monitor between two calls
/// that it is alive: the watchdog then applies to each call, as the statement's per-input watchdog does.
pub fn heartbeat() {
    LAST_PUBLISHED.with(|l| {
        if let Some((f, buf)) = l.borrow_mut().as_mut() {
            let c = SLOT_COUNTER.fetch_add(1, Ordering::Relaxed) + 1;
            buf[..8].copy_from_slice(&c.to_le_bytes());
            let _ = f.write_at(buf, 0);
        }
    });
}

struct Slot {
    file: Option<std::fs::File>,
}

impl Slot {
    fn open(dir: &Option<std::path::PathBuf>, idx: usize) -> Slot {
        let file = dir.as_ref().and_then(|d| {
            std::fs::OpenOptions::new()
                .create(true)
                .truncate(true)
                .write(true)
                .open(d.join(format!("slot{}", idx)))
                .ok()
        });
        Slot { file }
    }
    fn publish(&self, part_idx: usize, exh: u32, data: &CaseData) {
        if let Some(f) = &self.file {
            let c = SLOT_COUNTER.fetch_add(1, Ordering::Relaxed) + 1;
            let mut buf: Vec<u8> = Vec::with_capacity(64);
            buf.extend_from_slice(&c.to_le_bytes());
            buf.extend_from_slice(&(part_idx as u32).to_le_bytes());
            buf.extend_from_slice(&exh.to_le_bytes());
            match data {
                CaseData::Bytes(b) => {
                    buf.push(0);
                    buf.extend_from_slice(&(b.len() as u32).to_le_bytes());
                    buf.extend_from_slice(b);
                }
                CaseData::Choices(cs) => {
                    buf.push(1);
                    buf.extend_from_slice(&(cs.len() as u32).to_le_bytes());
                    for x in cs {
                        buf.extend_from_slice(&x.to_le_bytes());
                    }
                }
            }
            let _ = f.write_at(&buf, 0);
            LAST_PUBLISHED.with(|l| *l.borrow_mut() = f.try_clone().ok().map(|fc| (fc, buf)));
        }
    }
    fn idle(&self) {
        LAST_PUBLISHED.with(|l| *l.borrow_mut() = None);
        if let Some(f) = &self.file {
            let _ = f.write_at(&0u64.to_le_bytes(), 0);
        }
    }
}

/// parse a slot file: (counter, part_idx, exh, data)
pub fn read_slot(path: &std::path::Path) -> Option<(u64, usize, u32, CaseData)> {
    let b = std::fs::read(path).ok()?;
    if b.len() < 21 {
        return None;
    }
    let c = u64::from_le_bytes(b[0..8].try_into().ok()?);
    if c == 0 {
        return None;
    }
    let part = u32::from_le_bytes(b[8..12].try_into().ok()?) as usize;
    let exh = u32::from_le_bytes(b[12..16].try_into().ok()?);
    let tag = b[16];
    let n = u32::from_le_bytes(b[17..21].try_into().ok()?) as usize;
    if tag == 0 {
        if b.len() < 21 + n {
            return None;
        }
        Some((c, part, exh, CaseData::Bytes(b[21..21 + n].to_vec())))
    } else {
        if b.len() < 21 + 4 * n {
            return None;
        }
        let cs = (0..n)
            .map(|i| u32::from_le_bytes(b[21 + 4 * i..25 + 4 * i].try_into().unwrap()))
            .collect();
        Some((c, part, exh, CaseData::Choices(cs)))
    }
}

fn is_known(findings: &[Finding], sig: &str) -> Option<String> {
    for f in findings {
        if f.kind == "known" && findings::sig_matches(&f.sig, sig) {
            return Some(f.id.clone());
        }
    }
    None
}

fn random_worker(
    part: &Part,
    part_idx: usize,
    env: &RunEnv,
    worker: usize,
    cases: u64,
    bytes: usize,
    prop_id: &str,
) -> (Stats, Option<Failure>) {
    let seed = splitmix(env.seed ^ splitmix(hash_str(prop_id) ^ splitmix(hash_str(part.name) ^ worker as u64)));
    let mut seed_bytes = [0u8; 32];
    let mut x = seed;
    for ch in seed_bytes.chunks_mut(8) {
        x = splitmix(x);
        ch.copy_from_slice(&x.to_le_bytes());
    }
    let _ = seed_bytes;
    let cfg = Config {
        cases: cases as u32,
        rng_seed: RngSeed::Fixed(seed),
        failure_persistence: None,
        max_shrink_iters: 8_000,
        max_shrink_time: 0,
        max_global_rejects: 1 << 30,
        max_local_rejects: 1 << 30,
        verbose: 0,
        ..Config::default()
    };
    let mut runner = TestRunner::new(cfg);
    let lo = (bytes / 4).max(1);
    let strat = proptest::collection::vec(proptest::num::u8::ANY, lo..=bytes);
    let stats = RefCell::new(Stats::default());
    let failed = RefCell::new(false);
    let idx = RefCell::new(0u64);
    let slot = Slot::open(&env.slot_dir, worker);
    let stride = (cases / 24).max(1);
    let shrink_deadline: RefCell<Option<Instant>> = RefCell::new(None);
    // the first failing case as generated (before shrinking): reported if the shrunk case turns out to be flaky
    let first_fail: RefCell<Option<(Vec<u8>, String, String, String)>> = RefCell::new(None);
    let res = runner.run(&strat, |b| {
        let counting = !*failed.borrow();
        if counting && PART_FAILED.load(Ordering::Relaxed) {
            return Ok(());
        }
        if !counting {
            // shrinking: bound the time spent
            let mut d = shrink_deadline.borrow_mut();
            let dl = d.get_or_insert_with(|| Instant::now() + std::time::Duration::from_secs(25));
            if Instant::now() > *dl {
                return Ok(());
            }
        }
        let i = {
            let mut i = idx.borrow_mut();
            *i += 1;
            *i
        };
        let want = counting && worker == 0 && (i % stride == 1 || stride == 1);
        let data = CaseData::Bytes(b);
        slot.publish(part_idx, 0, &data);
        let (v, ctx) = exec_case(part.run, &data, 0, env.thorough, want, false);
        if counting {
            stats.borrow_mut().absorb(&ctx, &v);
        }
        match v {
            Verdict::Fail { sig, detail } => {
                if let Some(id) = is_known(&env.findings, &sig) {
                    if counting {
                        *stats.borrow_mut().known_hits.entry(id).or_default() += 1;
                    }
                    Ok(())
                } else {
                    if first_fail.borrow().is_none() {
                        if let CaseData::Bytes(b) = &data {
                            // describe it now: a schedule-dependent failure may not come back
                            let d = describe_case(part.run, &data, 0, env.thorough);
                            *first_fail.borrow_mut() = Some((b.clone(), sig.clone(), detail.clone(), d));
                        }
                    }
                    *failed.borrow_mut() = true;
                    PART_FAILED.store(true, Ordering::Relaxed);
                    Err(TestCaseError::fail(sig))
                }
            }
            _ => Ok(()),
        }
    });
    slot.idle();
    let fail = match res {
        Ok(()) => None,
        Err(TestError::Fail(_, b)) => {
            let data = CaseData::Bytes(b);
            // re-run the minimal case for its description; it may be flaky → retry
            let mut out = None;
            for _ in 0..25 {
                let (v, ctx) = exec_case(part.run, &data, 0, env.thorough, true, false);
                if let Verdict::Fail { sig, detail } = v {
                    out = Some(Failure {
                        part: part.name,
                        data: data.clone(),
                        exh: 0,
                        sig,
                        detail,
                        desc: ctx.desc.unwrap_or_default(),
                    });
                    break;
                }
            }
            Some(out.unwrap_or_else(|| match first_fail.borrow_mut().take() {
                // the shrunk case does not fail reliably (schedule / hash-order dependent): report the case as first observed
                Some((b, sig, detail, desc)) => Failure {
                    part: part.name,
                    data: CaseData::Bytes(b),
                    exh: 0,
                    sig,
                    detail: format!("{} [intermittent: the shrunk case did not fail again in 25 re-executions, this is the case as first observed]", detail),
                    desc,
                },
                None => Failure {
                    part: part.name,
                    data,
                    exh: 0,
                    sig: "flaky".into(),
                    detail: "failure did not reproduce in 25 re-executions of the shrunk case".into(),
                    desc: String::new(),
                },
            }))
        }
        Err(TestError::Abort(r)) => Some(Failure {
            part: part.name,
            data: CaseData::Bytes(vec![]),
            exh: 0,
            sig: "proptest-abort".into(),
            detail: format!("{}", r),
            desc: String::new(),
        }),
    };
    (stats.into_inner(), fail)
}

/// Exhaustive enumeration of the generator's choice tree, split over workers by
/// the first two choices.
fn exhaustive_worker(
    part: &Part,
    part_idx: usize,
    env: &RunEnv,
    worker: usize,
    nworkers: usize,
    param: u32,
) -> (Stats, Option<Failure>) {
    let mut stats = Stats::default();
    let slot = Slot::open(&env.slot_dir, worker);
    let mut choices: Vec<u32> = Vec::new();
    let mut n_mine = 0u64;
    let mut fail = None;
    loop {
        if PART_FAILED.load(Ordering::Relaxed) {
            break;
        }
        // ownership of this leaf by (c0, c1)
        let data = CaseData::Choices(choices.clone());
        // run once to learn bounds (cheap generators; execution happens regardless)
        let mut ctx = Ctx::new(false);
        ctx.exh = param;
        ctx.thorough = env.thorough;
        let mut bounds: Vec<u32> = Vec::new();
        let c0 = choices.first().copied().unwrap_or(0) as usize;
        let c1 = choices.get(1).copied().unwrap_or(0) as usize;
        let c2 = choices.get(2).copied().unwrap_or(0) as usize;
        let mine = (splitmix((c0 as u64) << 40 | (c1 as u64) << 20 | c2 as u64) % nworkers as u64) as usize == worker;
        if mine {
            n_mine += 1;
            ctx.want_desc = worker == 0 && (n_mine % 5000 == 1);
            slot.publish(part_idx, param, &data);
        }
        let r = catch(|| {
            let mut s = Src::choices(&choices);
            let v = if mine {
                (part.run)(&mut s, &mut ctx)
            } else {
                // still need the bounds of the first three draws to advance
                crate::runner::probe_bounds(part.run, &mut s, &mut ctx)
            };
            bounds = std::mem::take(&mut s.bounds);
            v
        });
        let v = match r {
            Ok(v) => v,
            Err(p) => {
                let loc = p.split(": ").next().unwrap_or("?").to_string();
                Verdict::fail(format!("panic@{}", loc), p)
            }
        };
        if mine {
            stats.absorb2(&ctx, &v, true);
            if let Verdict::Fail { sig, detail } = v {
                if let Some(id) = is_known(&env.findings, &sig) {
                    *stats.known_hits.entry(id).or_default() += 1;
                } else {
                    PART_FAILED.store(true, Ordering::Relaxed);
                    let desc = describe_case(part.run, &data, param, env.thorough);
                    fail = Some(Failure { part: part.name, data, exh: param, sig, detail, desc });
                    break;
                }
            }
        }
        // advance odometer
        if bounds.is_empty() {
            break;
        }
        while choices.len() < bounds.len() {
            choices.push(0);
        }
        choices.truncate(bounds.len());
        // when the leaf is not mine, skip its whole (c0,c1,c2) subtree
        let mut i = if mine { choices.len() } else { choices.len().min(3) };
        if !mine {
            choices.truncate(i);
        }
        let mut advanced = false;
        while i > 0 {
            i -= 1;
            if choices[i] + 1 < bounds[i] {
                choices[i] += 1;
                choices.truncate(i + 1);
                advanced = true;
                break;
            }
        }
        if !advanced {
            break;
        }
    }
    slot.idle();
    stats.exhaustive = fail.is_none();
    (stats, fail)
}

/// Run the generator only far enough to learn the bounds of its leading draws.
/// Property functions generate first and execute afterwards, so running them
/// fully is correct but wasteful; they may call `Ctx` freely. To keep this
/// generic we simply run the case — but with a flag telling the property to
/// stop after generation.
pub fn probe_bounds(run: RunFn, s: &mut Src, ctx: &mut Ctx) -> Verdict {
    PROBE_ONLY.with(|p| p.set(true));
    let v = run(s, ctx);
    PROBE_ONLY.with(|p| p.set(false));
    v
}

thread_local! {
    pub static PROBE_ONLY: std::cell::Cell<bool> = const { std::cell::Cell::new(false) };
}

/// Property code calls this right after generation: `if probe_only() { return Verdict::Pass; }`
pub fn probe_only() -> bool {
    PROBE_ONLY.with(|p| p.get())
}

/// Scratch directory for checks that need files; removed by the monitor at exit.
pub fn scratch_dir() -> std::path::PathBuf {
    let d: std::path::PathBuf = std::env::var("VERIF_SCRATCH")
        .map(Into::into)
        .unwrap_or_else(|_| verif_root().join(".scratch").join(format!("{}", std::process::id())));
    let _ = std::fs::create_dir_all(&d);
    d
}

/// FNV-1a, used to pin the rendering of a saved case (stable across Rust versions, trivial to recompute)
pub fn fnv1a(s: &str) -> u64 {
    let mut h: u64 = 0xcbf29ce484222325;
    for b in s.as_bytes() {
        h ^= *b as u64;
        h = h.wrapping_mul(0x100000001b3);
    }
    h
}

pub fn verif_root() -> std::path::PathBuf {
    std::env::var("VERIF_ROOT").map(Into::into).unwrap_or_else(|_| "/verif".into())
}

fn write_replay(prop: &Property, f: &Failure, no_excl: bool) -> String {
    let dir = verif_root().join("replays").join(prop.id);
    let _ = std::fs::create_dir_all(&dir);
    let (kind, payload) = match &f.data {
        CaseData::Bytes(b) => ("bytes", json!(hex(b))),
        CaseData::Choices(c) => ("choices", json!(c)),
    };
    let h = hash_of(&(f.part, format!("{:?}", f.data), f.exh));
    let path = dir.join(format!("{}-{:016x}.json", f.part, h));
    let j = json!({
        "property": prop.id,
        "part": f.part,
        "kind": kind,
        "data": payload,
        "exh": f.exh,
        "no_exclusions": no_excl,
        "sig": f.sig,
        "detail": f.detail,
        "case": f.desc,
        "case_fnv1a": format!("{:016x}", fnv1a(&f.desc)),
    });
    let _ = std::fs::write(&path, serde_json::to_string_pretty(&j).unwrap());
    path.to_string_lossy().into_owned()
}

pub struct ReplayFile {
    pub part: String,
    pub data: CaseData,
    pub exh: u32,
    pub no_exclusions: bool,
    pub sig: String,
    pub expect: String,
    /// FNV-1a of the case as rendered when the file was written (absent in hand-built files); corpus replay refuses a file that no longer decodes to it
    pub case: String,
    /// corpus witness that needs the whole watchdog time (a hang): replayed concurrently with the generated search
    pub slow: bool,
}

pub fn load_replay(path: &std::path::Path) -> Result<ReplayFile, String> {
    let s = std::fs::read_to_string(path).map_err(|e| format!("{}: {}", path.display(), e))?;
    let j: serde_json::Value = serde_json::from_str(&s).map_err(|e| format!("{}: {}", path.display(), e))?;
    let part = j["part"].as_str().unwrap_or("").to_string();
    let data = match j["kind"].as_str() {
        Some("choices") => CaseData::Choices(
            j["data"].as_array().map(|a| a.iter().map(|x| x.as_u64().unwrap_or(0) as u32).collect()).unwrap_or_default(),
        ),
        _ => CaseData::Bytes(unhex(j["data"].as_str().unwrap_or(""))),
    };
    Ok(ReplayFile {
        part,
        data,
        exh: j["exh"].as_u64().unwrap_or(0) as u32,
        no_exclusions: j["no_exclusions"].as_bool().unwrap_or(false),
        sig: j["sig"].as_str().unwrap_or("").to_string(),
        expect: j["expect"].as_str().unwrap_or("pass").to_string(),
        case: j["case_fnv1a"].as_str().unwrap_or("").to_string(),
        slow: j["slow"].as_bool().unwrap_or(false),
    })
}

/// Execute a replay file `reps` times; returns the first failing verdict (if any) and the description.
pub fn replay_case(prop: &Property, rf: &ReplayFile, thorough: bool) -> (Verdict, String) {
    let part = match prop.parts.iter().find(|p| p.name == rf.part) {
        Some(p) => p,
        None => return (Verdict::fail("replay-unknown-part", rf.part.clone()), String::new()),
    };
    let mut desc = String::new();
    for i in 0..prop.replay_reps.max(1) {
        let (v, ctx) = exec_case(part.run, &rf.data, rf.exh, thorough, i == 0, rf.no_exclusions);
        if i == 0 {
            desc = ctx.desc.clone().unwrap_or_default();
        }
        if v.is_fail() {
            return (v, desc);
        }
        if let Verdict::Discard(_) = v {
            return (v, desc);
        }
    }
    // The properties that quantify over thread schedules (C15, C19): a case that misbehaved while 16 workers shared the
    // machine is re-executed the same way - 16 threads run it side by side, so that its threads are preempted in the
    // middle of what they do, as they were when it was found. (On an idle machine a window of a few instructions
    // between two lock acquisitions is practically never hit.)
    if prop.id == "C15" || prop.id == "C19" {
        let run = part.run;
        let reps = prop.replay_reps.max(1);
        let found: std::sync::Mutex<Option<Verdict>> = std::sync::Mutex::new(None);
        std::thread::scope(|sc| {
            for _ in 0..16 {
                sc.spawn(|| {
                    for _ in 0..reps {
                        if found.lock().unwrap().is_some() {
                            return;
                        }
                        let (v, _) = exec_case(run, &rf.data, rf.exh, thorough, false, rf.no_exclusions);
                        if v.is_fail() {
                            let mut g = found.lock().unwrap();
                            if g.is_none() {
                                *g = Some(v);
                            }
                            return;
                        }
                    }
                });
            }
        });
        if let Some(v) = found.into_inner().unwrap() {
            return (v, desc);
        }
    }
    (Verdict::Pass, desc)
}

/// Set by a part whose case could not be judged for a reason OUTSIDE the code under test that would otherwise pass
/// silently (a child process killed from outside): the run then ends with exit 2 unless a violation was found.
pub static INCONCLUSIVE: std::sync::atomic::AtomicBool = std::sync::atomic::AtomicBool::new(false);
pub static INCONCLUSIVE_WHY: std::sync::Mutex<String> = std::sync::Mutex::new(String::new());
pub fn mark_inconclusive(why: &str) {
    INCONCLUSIVE.store(true, std::sync::atomic::Ordering::Relaxed);
    let mut g = INCONCLUSIVE_WHY.lock().unwrap();
    if g.is_empty() {
        *g = why.to_string();
    }
}

pub struct Report {
    pub out: std::fs::File,
}

impl Report {
    pub fn line(&mut self, s: &str) {
        let _ = writeln!(self.out, "{}", s);
        let _ = self.out.flush();
    }
}

pub fn budget_of(p: &Part, thorough: bool) -> Budget {
    if thorough {
        p.thorough
    } else {
        p.quick
    }
}

/// a corpus case's verdict: the witness of a listed finding failing with its signature is a KNOWN-FINDING line;
/// any other failure that no listed signature covers is a violation
fn judge_corpus_verdict(id: &str, f: &std::path::Path, v: &Verdict, my: &[Finding], known_lines: &mut Vec<String>, rep: &mut Report, violations: &mut i32) {
    let rel = f.strip_prefix(verif_root()).unwrap_or(f).to_string_lossy().into_owned();
    let witness_of = my.iter().find(|k| k.kind == "known" && k.witness == rel);
    match (v, witness_of) {
        (Verdict::Fail { sig, .. }, Some(k)) if findings::sig_matches(&k.sig, sig) => {
            known_lines.push(format!("KNOWN-FINDING: property={} {} [{}]", id, k.text, k.id));
        }
        (Verdict::Fail { sig, detail }, _) => {
            if is_known(my, sig).is_none() {
                *violations += 1;
                rep.line(&format!("VIOLATION property={} replay={}", id, f.display()));
                rep.line(&format!("  corpus case failed: sig={} {}", sig, first_line(detail)));
            }
        }
        _ => {}
    }
}

/// Returns the process exit code.
pub fn run_property(prop: &Property, thorough: bool, seed: u64, rep: &mut Report, slot_dir: Option<std::path::PathBuf>) -> i32 {
    let t0 = Instant::now();
    let all_findings = findings::load(&verif_root().join("KNOWN_FINDINGS.txt"));
    let my: Vec<Finding> = all_findings.into_iter().filter(|f| f.property == prop.id).collect();
    let env = RunEnv { thorough, seed, findings: my.clone(), slot_dir };
    let mut failures: Vec<Failure> = Vec::new();
    let mut violations = 0;
    let mut known_lines: Vec<String> = Vec::new();

    // 1. corpus replay (regressions of fixed defects, witnesses of known findings)
    let mut corpus_n = 0;
    let mut slow_handles: Vec<(std::path::PathBuf, std::thread::JoinHandle<(Verdict, String)>)> = Vec::new();
    let cdir = verif_root().join("corpus").join(prop.id);
    let mut files: Vec<_> = std::fs::read_dir(&cdir)
        .map(|d| d.filter_map(|e| e.ok()).map(|e| e.path()).filter(|p| p.extension().map(|x| x == "json").unwrap_or(false)).collect())
        .unwrap_or_default();
    files.sort();
    for f in &files {
        let rf = match load_replay(f) {
            Ok(r) => r,
            Err(e) => {
                rep.line(&format!("harness: bad corpus file {}", e));
                return 2;
            }
        };
        corpus_n += 1;
        if rf.slow {
            // started now, judged after the generated search (the module bounds such a case itself, in a child process)
            let id = prop.id;
            let path = f.clone();
            slow_handles.push((
                f.clone(),
                std::thread::Builder::new()
                    .stack_size(64 << 20)
                    .spawn(move || {
                        let prop = crate::registry().into_iter().find(|p| p.id == id).unwrap();
                        let rf = load_replay(&path).unwrap();
                        replay_case(&prop, &rf, thorough)
                    })
                    .unwrap(),
            ));
            continue;
        }
        // visible to the monitor: a corpus case that hangs or kills the process is isolated like any other
        let cslot = Slot::open(&env.slot_dir, 0);
        cslot.publish(prop.parts.iter().position(|p| p.name == rf.part).unwrap_or(0), rf.exh, &rf.data);
        let (v, d) = replay_case(prop, &rf, thorough);
        cslot.idle();
        if !rf.case.is_empty() && !d.is_empty() && format!("{:016x}", fnv1a(&d)) != rf.case && std::env::var("VERIF_REBLESS").is_ok() {
            // development aid, never set in a registered command: after a deliberate change of how a case is *rendered*
            // (not of what it is) accept the new rendering; the operator compares the old and new text printed here
            let mut j: serde_json::Value = serde_json::from_str(&std::fs::read_to_string(f).unwrap_or_default()).unwrap_or_default();
            rep.line(&format!("harness: REBLESS {}\n  old: {}\n  new: {}", f.display(), j["case"].as_str().unwrap_or("").replace('\n', " | "), d.replace('\n', " | ")));
            j["case"] = json!(d);
            j["case_fnv1a"] = json!(format!("{:016x}", fnv1a(&d)));
            let _ = std::fs::write(f, serde_json::to_string_pretty(&j).unwrap());
        } else if !rf.case.is_empty() && !d.is_empty() && format!("{:016x}", fnv1a(&d)) != rf.case {
            rep.line(&format!("harness: corpus file {} no longer decodes to its recorded case (generator changed) — regenerate it", f.display()));
            return 2;
        }
        judge_corpus_verdict(prop.id, f, &v, &my, &mut known_lines, rep, &mut violations);
    }
    for l in &known_lines {
        rep.line(l);
    }

    // 2. generated search
    let mut total = Stats::default();
    let mut per_part = Vec::new();
    let mut all_exhaustive = true;
    let mut any_part = false;
    let mut health_fail = false;
    for (pi, part) in prop.parts.iter().enumerate() {
        let b = budget_of(part, thorough);
        PART_FAILED.store(false, Ordering::Relaxed);
        let nthreads = std::env::var("VERIF_THREADS").ok().and_then(|s| s.parse().ok()).unwrap_or(16usize);
        let tp = Instant::now();
        let (stats, fail) = match b {
            Budget::Skip => continue,
            Budget::Random { cases, bytes } => {
                all_exhaustive = false;
                let w = nthreads.min(((cases + 49) / 50) as usize).max(1);
                let per = cases.div_ceil(w as u64);
                let results: Vec<(Stats, Option<Failure>)> = std::thread::scope(|sc| {
                    let hs: Vec<_> = (0..w)
                        .map(|wi| {
                            let env = &env;
                            std::thread::Builder::new()
                                .stack_size(64 << 20)
                                .spawn_scoped(sc, move || random_worker(part, pi, env, wi, per, bytes, prop.id))
                                .unwrap()
                        })
                        .collect();
                    hs.into_iter().map(|h| h.join().unwrap()).collect()
                });
                let mut st = Stats::default();
                let mut fl = None;
                for (s, f) in results {
                    st.merge(s);
                    if fl.is_none() {
                        fl = f;
                    }
                }
                (st, fl)
            }
            Budget::Exhaustive { param } => {
                let w = nthreads;
                let results: Vec<(Stats, Option<Failure>)> = std::thread::scope(|sc| {
                    let hs: Vec<_> = (0..w)
                        .map(|wi| {
                            let env = &env;
                            std::thread::Builder::new()
                                .stack_size(64 << 20)
                                .spawn_scoped(sc, move || exhaustive_worker(part, pi, env, wi, w, param))
                                .unwrap()
                        })
                        .collect();
                    hs.into_iter().map(|h| h.join().unwrap()).collect()
                });
                let mut st = Stats::default();
                let mut fl = None;
                let mut exh = true;
                for (s, f) in results {
                    exh &= s.exhaustive;
                    st.merge(s);
                    if fl.is_none() {
                        fl = f;
                    }
                }
                st.exhaustive = exh;
                (st, fl)
            }
        };
        any_part = true;
        let pct = if stats.judged > 0 { stats.nontrivial_total * 100 / stats.judged } else { 0 };
        per_part.push(json!({
            "part": part.name,
            "budget": format!("{:?}", b),
            "evaluations": stats.evaluations,
            "judged": stats.judged,
            "nontrivial_total": stats.nontrivial_total,
            "distinct_nontrivial": stats.distinct(),
            "nontrivial_pct_of_judged": pct,
            "discarded": stats.discards,
            "labels": stats.labels,
            "excluded_by_finding": stats.excluded,
            "known_finding_hits": stats.known_hits,
            "exhaustive": stats.exhaustive,
            "wall_s": tp.elapsed().as_secs_f64(),
        }));
        if let Some(f) = fail {
            failures.push(f);
        } else if stats.judged > 0 && pct < part.min_nontrivial_pct as u64 {
            rep.line(&format!(
                "harness: generator health: part {} has {}% non-trivial cases (< {}%)",
                part.name, pct, part.min_nontrivial_pct
            ));
            // keep going: a violation found by another part must still be reported (exit 1 wins over exit 2)
            health_fail = true;
        }
        // distinct hashes are per part: salt them
        let salt = hash_str(part.name);
        let mut s2 = stats.clone();
        s2.nontrivial = stats.nontrivial.iter().map(|h| h ^ salt).collect();
        total.merge(s2);
    }
    // slow corpus witnesses started before the search
    for (f, h) in slow_handles {
        let n0 = known_lines.len();
        match h.join() {
            Ok((v, _)) => judge_corpus_verdict(prop.id, &f, &v, &my, &mut known_lines, rep, &mut violations),
            Err(_) => {
                rep.line(&format!("harness: replay thread of {} panicked", f.display()));
                health_fail = true;
            }
        }
        for l in &known_lines[n0..] {
            rep.line(l);
        }
    }
    for f in &failures {
        violations += 1;
        let p = write_replay(prop, f, false);
        rep.line(&format!("VIOLATION property={} replay={}", prop.id, p));
        rep.line(&format!("  part={} sig={} {}", f.part, f.sig, first_line(&f.detail)));
    }
    let exhaustive = any_part && all_exhaustive && failures.is_empty() && !health_fail;
    write_evidence(prop, thorough, seed, &total, &per_part, corpus_n, violations, t0, exhaustive, &known_lines);
    rep.line(&format!(
        "{} {} seed={} evaluations={} judged={} distinct_nontrivial={} corpus_replayed={} violations={} known_findings={} wall={:.1}s",
        prop.id,
        if thorough { "thorough" } else { "quick" },
        seed,
        total.evaluations,
        total.judged,
        total.distinct(),
        corpus_n,
        violations,
        known_lines.len(),
        t0.elapsed().as_secs_f64()
    ));
    if violations > 0 {
        1
    } else if health_fail {
        2
    } else if INCONCLUSIVE.load(std::sync::atomic::Ordering::Relaxed) {
        rep.line(&format!("harness: inconclusive: {}", INCONCLUSIVE_WHY.lock().unwrap()));
        2
    } else {
        0
    }
}

fn first_line(s: &str) -> String {
    let l = s.lines().next().unwrap_or("");
    if l.len() > 300 {
        let mut e = 300;
        while !l.is_char_boundary(e) {
            e -= 1;
        }
        format!("{}…", &l[..e])
    } else {
        l.to_string()
    }
}

#[allow(clippy::too_many_arguments)]
fn write_evidence(
    prop: &Property,
    thorough: bool,
    seed: u64,
    total: &Stats,
    per_part: &[serde_json::Value],
    corpus_n: usize,
    violations: i32,
    t0: Instant,
    exhaustive: bool,
    known_lines: &[String],
) {
    let mut samples: Vec<serde_json::Value> = total.samples.iter().map(|s| json!(s)).collect();
    if samples.is_empty() {
        samples = total.trivial_samples.iter().map(|s| json!(s)).collect();
    }
    let ev = json!({
        "property_id": prop.id,
        "tier": if thorough { "thorough" } else { "quick" },
        "seed": seed,
        "level": prop.level,
        "coverage": {
            "evaluations": total.evaluations,
            "distinct_nontrivial": total.distinct(),
            "rule": prop.rule,
            "samples": samples,
            "exhaustive": exhaustive,
            "judged": total.judged,
            "discarded_undefined": total.discards,
            "excluded_by_finding": total.excluded,
            "known_finding_hits": total.known_hits,
            "labels": total.labels,
            "parts": per_part,
            "corpus_files_replayed": corpus_n,
            "known_findings_reported": known_lines,
        },
        "assumptions": prop.assumptions,
        "wall_s": t0.elapsed().as_secs_f64(),
        "violations": violations,
    });
    let dir = verif_root().join("evidence");
    let _ = std::fs::create_dir_all(&dir);
    // a run under another build profile keeps the main evidence file
    let name = match std::env::var("VERIF_PROFILE") {
        Ok(p) if !p.is_empty() => format!("{}.{}.json", prop.id, p),
        _ => format!("{}.json", prop.id),
    };
    let _ = std::fs::write(dir.join(name), serde_json::to_string_pretty(&ev).unwrap());
}
