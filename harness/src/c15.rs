//! C15 — knowledge base lookups, order and version stay consistent.
//!
//! Sequential parts (`exh4`, `exh5`, `random`): every sequence over
//! {add(name ∈ 4, salience ∈ 3), remove(name), set_enabled(name, b), clear} is run
//! against a model written from the statement (insertion-ordered list + version
//! rule); after every operation the return value and every observer named by the
//! property are compared.
//!
//! Concurrent part (`conc`): 3 threads × ≤ 4 calls (mutators and readers) on one
//! `Arc<KnowledgeBase>`, every call stamped with an atomic counter before and
//! after; the recorded history is accepted iff a Wing–Gong search finds a
//! linearisation that the same sequential model accepts and whose final state is
//! the state observed after the threads were joined. Every program is repeated
//! 50× / 500× with pseudo-random yields at the engine's schedule points.
//! A deadlock is noticed by the supervisor of the three threads (no call returns
//! while it polls 500 × 10 ms) and reported as `conc-deadlock` only if a second
//! execution of the same program stalls again; the runner's watchdog remains the
//! backstop (`sig=hang`, also confirmed by replay).

use crate::core::*;
use crate::runner::*;
use rust_rule_engine::engine::knowledge_base::KnowledgeBase;
use rust_rule_engine::engine::rule::{Condition, ConditionGroup, Rule};
use rust_rule_engine::types::{Operator, Value};
use std::cell::Cell;
use std::collections::HashSet;
use std::fmt::Write as _;
use std::sync::atomic::{AtomicBool, AtomicU64, AtomicUsize, Ordering};
use std::sync::{Arc, Once};

const NAMES: [&str; 4] = ["ra", "rb", "rc", "rd"];
/// three salience values per case; index 0 is the simplest
const SAL_SETS: [[i32; 3]; 3] = [[0, 10, -5], [0, i32::MAX, i32::MIN], [3, 4, 2]];

// ---------------------------------------------------------------------------
// operations, observations
// ---------------------------------------------------------------------------

#[derive(Clone, Debug, PartialEq, Eq, Hash)]
enum Op {
    Add { n: u8, sal: i32, en: bool, id: u32 },
    Remove(u8),
    Enable(u8, bool),
    Clear,
    Get(u8),
    List,
    Names,
    Count,
    Version,
    Stats,
    Order,
    /// `clone()` and then every reader on the clone: the copy is a snapshot of ONE moment (its listing, its names,
    /// its count and its lookups describe the same rule set), and that moment lies within the call
    CloneView,
}

impl Op {
    fn is_mutator(&self) -> bool {
        matches!(self, Op::Add { .. } | Op::Remove(_) | Op::Enable(..) | Op::Clear)
    }
    fn kind(&self) -> &'static str {
        match self {
            Op::Add { .. } => "add",
            Op::Remove(_) => "remove",
            Op::Enable(..) => "set_enabled",
            Op::Clear => "clear",
            Op::Get(_) => "get_rule",
            Op::List => "get_rules",
            Op::Names => "get_rule_names",
            Op::Count => "rule_count",
            Op::Version => "version",
            Op::Stats => "get_statistics",
            Op::Order => "get_rules_by_salience",
            Op::CloneView => "clone",
        }
    }
}

impl std::fmt::Display for Op {
    fn fmt(&self, f: &mut std::fmt::Formatter<'_>) -> std::fmt::Result {
        match self {
            Op::Add { n, sal, en, id } => {
                write!(f, "add({},{}{})#{}", NAMES[*n as usize], sal, if *en { "" } else { ",disabled" }, id)
            }
            Op::Remove(n) => write!(f, "remove({})", NAMES[*n as usize]),
            Op::Enable(n, b) => write!(f, "set_enabled({},{})", NAMES[*n as usize], b),
            Op::Clear => write!(f, "clear"),
            Op::Get(n) => write!(f, "get_rule({})", NAMES[*n as usize]),
            o => write!(f, "{}", o.kind()),
        }
    }
}

/// What the harness reads off a `Rule`: name (index into NAMES, 255 = foreign),
/// salience, enabled flag and the identity tag of the `add` that created it.
#[derive(Clone, Copy, Debug, PartialEq, Eq, Hash)]
struct RObs {
    n: u8,
    sal: i32,
    en: bool,
    id: u32,
}

impl std::fmt::Display for RObs {
    fn fmt(&self, f: &mut std::fmt::Formatter<'_>) -> std::fmt::Result {
        let name = NAMES.get(self.n as usize).copied().unwrap_or("<foreign>");
        write!(f, "{}#{}(sal {}{})", name, self.id as i32, self.sal, if self.en { "" } else { ",off" })
    }
}

#[derive(Clone, Debug, PartialEq, Eq)]
enum Res {
    /// add_rule: Ok → true, Err → false
    Added(bool),
    /// remove_rule / set_rule_enabled: Ok(b) → Some(b), Err → None
    Flag(Option<bool>),
    Done,
    Rule(Option<RObs>),
    Rules(Vec<RObs>),
    /// sorted name indexes (duplicates kept)
    Names(Vec<u8>),
    Count(usize),
    Version(u64),
    Stats { version: u64, total: usize, enabled: usize, disabled: usize, dist: Vec<(i32, usize)> },
    Order(Vec<usize>),
    /// what the readers say on a fresh `clone()`: listing, sorted names, count, lookup of every name
    CloneView { rules: Vec<RObs>, names: Vec<u8>, count: usize, gets: Vec<Option<RObs>> },
    Panicked(String),
}

fn fmt_rules(v: &[RObs]) -> String {
    let mut s = String::from("[");
    for (i, r) in v.iter().enumerate() {
        if i > 0 {
            s.push_str(", ");
        }
        let _ = write!(s, "{}", r);
    }
    s.push(']');
    s
}

impl std::fmt::Display for Res {
    fn fmt(&self, f: &mut std::fmt::Formatter<'_>) -> std::fmt::Result {
        match self {
            Res::Added(true) => write!(f, "Ok"),
            Res::Added(false) => write!(f, "Err"),
            Res::Flag(Some(b)) => write!(f, "Ok({})", b),
            Res::Flag(None) => write!(f, "Err"),
            Res::Done => write!(f, "()"),
            Res::Rule(None) => write!(f, "None"),
            Res::Rule(Some(r)) => write!(f, "Some({})", r),
            Res::Rules(v) => write!(f, "{}", fmt_rules(v)),
            Res::Names(v) => {
                let n: Vec<&str> = v.iter().map(|i| NAMES.get(*i as usize).copied().unwrap_or("<foreign>")).collect();
                write!(f, "{{{}}}", n.join(","))
            }
            Res::Count(c) => write!(f, "{}", c),
            Res::Version(v) => write!(f, "v{}", v),
            Res::Stats { version, total, enabled, disabled, dist } => {
                write!(f, "stats(v{}, total {}, enabled {}, disabled {}, by-salience {:?})", version, total, enabled, disabled, dist)
            }
            Res::Order(v) => write!(f, "{:?}", v),
            Res::CloneView { rules, names, count, gets } => {
                let n: Vec<&str> = names.iter().map(|i| NAMES.get(*i as usize).copied().unwrap_or("<foreign>")).collect();
                let g: Vec<String> = gets.iter().enumerate().map(|(i, r)| format!("{}:{}", NAMES[i], r.map(|r| r.to_string()).unwrap_or_else(|| "None".into()))).collect();
                write!(f, "a copy with listing {} names {{{}}} count {} lookups [{}]", fmt_rules(rules), n.join(","), count, g.join(", "))
            }
            Res::Panicked(p) => write!(f, "PANIC {}", p),
        }
    }
}

fn name_idx(name: &str) -> u8 {
    NAMES.iter().position(|x| *x == name).map(|i| i as u8).unwrap_or(255)
}

fn mk_rule(n: u8, sal: i32, en: bool, id: u32) -> Rule {
    let mut r = Rule::new(
        NAMES[n as usize].to_string(),
        ConditionGroup::single(Condition::new("F.x".to_string(), Operator::Equal, Value::Boolean(true))),
        vec![],
    );
    r.salience = sal;
    r.enabled = en;
    r.description = Some(format!("#{}", id));
    r
}

fn obs(r: &Rule) -> RObs {
    RObs {
        n: name_idx(&r.name),
        sal: r.salience,
        en: r.enabled,
        id: r.description.as_deref().and_then(|d| d.strip_prefix('#')).and_then(|d| d.parse().ok()).unwrap_or(u32::MAX),
    }
}

/// One call of the public API.
fn exec(kb: &KnowledgeBase, op: &Op) -> Res {
    match op {
        Op::Add { n, sal, en, id } => Res::Added(kb.add_rule(mk_rule(*n, *sal, *en, *id)).is_ok()),
        Op::Remove(n) => Res::Flag(kb.remove_rule(NAMES[*n as usize]).ok()),
        Op::Enable(n, b) => Res::Flag(kb.set_rule_enabled(NAMES[*n as usize], *b).ok()),
        Op::Clear => {
            kb.clear();
            Res::Done
        }
        Op::Get(n) => Res::Rule(kb.get_rule(NAMES[*n as usize]).as_ref().map(obs)),
        Op::List => Res::Rules(kb.get_rules().iter().map(obs).collect()),
        Op::Names => {
            let mut v: Vec<u8> = kb.get_rule_names().iter().map(|s| name_idx(s)).collect();
            v.sort_unstable();
            Res::Names(v)
        }
        Op::Count => Res::Count(kb.rule_count()),
        Op::Version => Res::Version(kb.version()),
        Op::Stats => {
            let st = kb.get_statistics();
            let mut dist: Vec<(i32, usize)> = st.priority_distribution.iter().map(|(k, v)| (*k, *v)).collect();
            dist.sort_unstable();
            Res::Stats { version: st.version, total: st.total_rules, enabled: st.enabled_rules, disabled: st.disabled_rules, dist }
        }
        Op::Order => Res::Order(kb.get_rules_by_salience()),
        Op::CloneView => {
            let c = kb.clone();
            let mut names: Vec<u8> = c.get_rule_names().iter().map(|s| name_idx(s)).collect();
            names.sort_unstable();
            Res::CloneView {
                rules: c.get_rules().iter().map(obs).collect(),
                names,
                count: c.rule_count(),
                gets: NAMES.iter().map(|n| c.get_rule(n).as_ref().map(obs)).collect(),
            }
        }
    }
}

const OBSERVERS: [Op; 10] =
    [Op::Version, Op::Get(0), Op::Get(1), Op::Get(2), Op::Get(3), Op::List, Op::Names, Op::Count, Op::Stats, Op::Order];

// ---------------------------------------------------------------------------
// the sequential model (written from the statement)
// ---------------------------------------------------------------------------

/// Stored rules in insertion order plus what is known about the version number.
///
/// The statement fixes how the version *moves*, not its values: it grows with
/// every successful change and a rejected call has no effect. So the model keeps
/// a lower bound `vlo` (last observed value + one per real change since) and
/// `vexact` (nothing that may move it happened since it was observed). Calls that
/// succeed without changing anything (clear of an empty base, set_enabled to the
/// value the rule already has) may or may not bump it.
#[derive(Clone, Debug, PartialEq, Eq, Hash)]
struct Model {
    rules: Vec<RObs>,
    vlo: u64,
    vexact: bool,
}

impl Model {
    fn new(v0: u64) -> Model {
        Model { rules: Vec::new(), vlo: v0, vexact: true }
    }
    fn find(&self, n: u8) -> Option<usize> {
        self.rules.iter().position(|r| r.n == n)
    }
    /// descending salience, insertion order among equals
    fn listing(&self) -> Vec<RObs> {
        let mut v = self.rules.clone();
        v.sort_by(|a, b| b.sal.cmp(&a.sal)); // stable
        v
    }
    fn changed(&mut self) {
        self.vlo = self.vlo.saturating_add(1);
        self.vexact = false;
    }
    fn see_version(&mut self, x: u64) -> Result<(), &'static str> {
        if x < self.vlo {
            return Err("version-not-grown");
        }
        if self.vexact && x != self.vlo {
            return Err("version-moved-without-change");
        }
        self.vlo = x;
        self.vexact = true;
        Ok(())
    }

    /// Is `res` a result the statement allows for `op` in this state? If so move to the next state.
    /// The error names the mechanism.
    fn step(&mut self, op: &Op, res: &Res) -> Result<(), &'static str> {
        if let Res::Panicked(_) = res {
            return Err("panic");
        }
        match (op, res) {
            (Op::Add { n, sal, en, id }, Res::Added(ok)) => {
                let exists = self.find(*n).is_some();
                match (exists, *ok) {
                    (true, true) => Err("duplicate-add-accepted"),
                    (false, false) => Err("add-rejected"),
                    (true, false) => Ok(()),
                    (false, true) => {
                        self.rules.push(RObs { n: *n, sal: *sal, en: *en, id: *id });
                        self.changed();
                        Ok(())
                    }
                }
            }
            (Op::Remove(n), Res::Flag(r)) => {
                let at = self.find(*n);
                if *r != Some(at.is_some()) {
                    return Err("remove-result");
                }
                if let Some(i) = at {
                    self.rules.remove(i);
                    self.changed();
                } else {
                    // the statement demands "without effect" only of a duplicate add; whether a
                    // remove that finds nothing moves the version is left open
                    self.vexact = false;
                }
                Ok(())
            }
            (Op::Enable(n, b), Res::Flag(r)) => {
                let at = self.find(*n);
                if *r != Some(at.is_some()) {
                    return Err("set-enabled-result");
                }
                if let Some(i) = at {
                    if self.rules[i].en != *b {
                        self.rules[i].en = *b;
                        self.changed();
                    } else {
                        self.vexact = false;
                    }
                } else {
                    self.vexact = false;
                }
                Ok(())
            }
            (Op::Clear, Res::Done) => {
                if self.rules.is_empty() {
                    self.vexact = false;
                } else {
                    self.rules.clear();
                    self.changed();
                }
                Ok(())
            }
            (Op::Get(n), Res::Rule(got)) => {
                let want = self.find(*n).map(|i| self.rules[i]);
                match (want, got) {
                    (None, None) => Ok(()),
                    (Some(w), Some(g)) if w == *g => Ok(()),
                    (_, Some(g)) if g.n != *n => Err("lookup-returns-other-rule"),
                    (None, Some(_)) => Err("lookup-returns-removed-rule"),
                    (Some(_), None) => Err("lookup-misses-stored-rule"),
                    (Some(w), Some(g)) if w.id != g.id => Err("lookup-returns-rule-of-another-add"),
                    _ => Err("lookup-attributes"),
                }
            }
            (Op::List, Res::Rules(got)) => {
                let want = self.listing();
                if *got == want {
                    return Ok(());
                }
                let mut a = got.clone();
                let mut b = want;
                let key = |r: &RObs| (r.n, r.id, r.sal, r.en);
                a.sort_by_key(key);
                b.sort_by_key(key);
                if a == b {
                    Err("listing-order")
                } else {
                    Err("listing-content")
                }
            }
            (Op::Names, Res::Names(got)) => {
                let mut want: Vec<u8> = self.rules.iter().map(|r| r.n).collect();
                want.sort_unstable();
                if *got == want {
                    Ok(())
                } else {
                    Err("rule-names")
                }
            }
            (Op::Count, Res::Count(c)) => {
                if *c == self.rules.len() {
                    Ok(())
                } else {
                    Err("rule-count")
                }
            }
            (Op::Version, Res::Version(x)) => self.see_version(*x),
            (Op::Stats, Res::Stats { version, total, enabled, disabled, dist }) => {
                let en = self.rules.iter().filter(|r| r.en).count();
                let mut d: Vec<(i32, usize)> = Vec::new();
                for r in &self.rules {
                    match d.iter_mut().find(|x| x.0 == r.sal) {
                        Some(x) => x.1 += 1,
                        None => d.push((r.sal, 1)),
                    }
                }
                d.sort_unstable();
                if *total != self.rules.len() || *enabled != en || *disabled != self.rules.len() - en || *dist != d {
                    return Err("statistics-totals");
                }
                self.see_version(*version)
            }
            (Op::Order, Res::Order(ix)) => {
                let mut s = ix.clone();
                s.sort_unstable();
                if s.len() == self.rules.len() && s.iter().enumerate().all(|(i, x)| i == *x) {
                    Ok(())
                } else {
                    Err("salience-order-indices")
                }
            }
            (Op::CloneView, Res::CloneView { rules, names, count, gets }) => {
                let mut want_names: Vec<u8> = self.rules.iter().map(|r| r.n).collect();
                want_names.sort_unstable();
                if *rules != self.listing() {
                    Err("clone-view:listing")
                } else if *names != want_names {
                    Err("clone-view:rule-names")
                } else if *count != self.rules.len() {
                    Err("clone-view:rule-count")
                } else if gets.iter().enumerate().any(|(i, g)| *g != self.find(i as u8).map(|k| self.rules[k])) {
                    Err("clone-view:lookup")
                } else {
                    Ok(())
                }
            }
            _ => Err("result-shape"),
        }
    }

    fn show(&self) -> String {
        format!(
            "stored (insertion order) {} listing {} version {}{}",
            fmt_rules(&self.rules),
            fmt_rules(&self.listing()),
            if self.vexact { "=" } else { ">=" },
            self.vlo
        )
    }
}

// ---------------------------------------------------------------------------
// generators
// ---------------------------------------------------------------------------

/// the 25-letter alphabet of the quantifier: 12 adds, 4 removes, 8 set_enabled, clear
fn letter(k: usize, sals: &[i32; 3], id: &mut u32) -> Op {
    match k {
        0..=11 => {
            *id += 1;
            Op::Add { n: (k / 3) as u8, sal: sals[k % 3], en: true, id: *id - 1 }
        }
        12..=15 => Op::Remove((k - 12) as u8),
        16..=23 => Op::Enable(((k - 16) / 2) as u8, (k - 16) % 2 == 0),
        _ => Op::Clear,
    }
}

fn gen_add(s: &mut Src, sals: &[i32; 3], id: &mut u32, disabled_den: usize) -> Op {
    let n = s.below(4) as u8;
    let sal = sals[s.below(3)];
    let en = !s.chance(1, disabled_den);
    *id += 1;
    Op::Add { n, sal, en, id: *id - 1 }
}

/// a name for remove / set_enabled: mostly one the generator believes to be stored
fn gen_target(s: &mut Src, stored: &[u8]) -> u8 {
    if !stored.is_empty() && s.chance(2, 3) {
        stored[s.below(stored.len())]
    } else {
        s.below(4) as u8
    }
}

/// Random mutator; `stored` is the generator's own bookkeeping of the names it has added and not
/// removed, used only to bias the choice of names (hits and misses both stay frequent).
fn gen_mutator(s: &mut Src, sals: &[i32; 3], id: &mut u32, stored: &mut Vec<u8>) -> Op {
    // build the base up first, then prefer removals
    let w: [u32; 4] = if stored.len() < 2 { [10, 2, 2, 1] } else { [5, 6, 4, 1] };
    match s.weighted(&w) {
        0 => {
            let free: Vec<u8> = (0..4u8).filter(|n| !stored.contains(n)).collect();
            let n = if !free.is_empty() && s.chance(1, 2) { free[s.below(free.len())] } else { s.below(4) as u8 };
            let sal = sals[s.below(3)];
            let en = !s.chance(1, 8);
            *id += 1;
            if !stored.contains(&n) {
                stored.push(n);
            }
            Op::Add { n, sal, en, id: *id - 1 }
        }
        1 => {
            let n = gen_target(s, stored);
            stored.retain(|x| *x != n);
            Op::Remove(n)
        }
        2 => Op::Enable(gen_target(s, stored), !s.bool()),
        _ => {
            stored.clear();
            Op::Clear
        }
    }
}

fn gen_seq(s: &mut Src, exh: u32) -> Vec<Op> {
    let mut id = 0u32;
    if exh > 0 {
        return (0..exh).map(|_| letter(s.below(25), &SAL_SETS[0], &mut id)).collect();
    }
    let sals = SAL_SETS[s.weighted(&[6, 1, 1])];
    let n = 1 + s.weighted(&[1, 1, 1, 1, 1, 2, 3, 6]);
    let mut stored = Vec::new();
    (0..n).map(|_| gen_mutator(s, &sals, &mut id, &mut stored)).collect()
}

#[derive(Clone, Debug, Hash)]
struct Prog {
    setup: Vec<Op>,
    threads: [Vec<Op>; 3],
    sched_seed: u64,
}

fn gen_conc_op(s: &mut Src, sals: &[i32; 3], id: &mut u32) -> Op {
    match s.weighted(&[5, 4, 3, 1, 4, 2, 1, 1, 2, 1, 1]) {
        0 => gen_add(s, sals, id, 8),
        1 => Op::Remove(s.below(4) as u8),
        2 => Op::Enable(s.below(4) as u8, !s.bool()),
        3 => Op::Clear,
        4 => Op::Get(s.below(4) as u8),
        5 => Op::List,
        6 => Op::Names,
        7 => Op::Count,
        8 => Op::Version,
        9 => Op::Stats,
        _ => Op::Order,
    }
}

fn gen_prog(s: &mut Src) -> Prog {
    let mut id = 0u32;
    let sals = SAL_SETS[s.weighted(&[6, 1, 1])];
    let k = s.below(5);
    let setup = (0..k).map(|_| gen_add(s, &sals, &mut id, 6)).collect();
    let mut threads: [Vec<Op>; 3] = Default::default();
    for t in threads.iter_mut() {
        let n = 1 + s.weighted(&[1, 1, 2, 10]);
        *t = (0..n).map(|_| gen_conc_op(s, &sals, &mut id)).collect();
    }
    let sched_seed = s.below(256) as u64;
    // drawn last (saved cases keep decoding): in one program in three a thread also takes a copy of the knowledge
    // base somewhere in its sequence and reads the copy
    if s.chance(1, 3) {
        let t = s.below(3);
        let at = s.below(threads[t].len() + 1);
        threads[t].insert(at, Op::CloneView);
    }
    Prog { setup, threads, sched_seed }
}

fn join_ops(ops: &[Op]) -> String {
    ops.iter().map(|o| o.to_string()).collect::<Vec<_>>().join("; ")
}

// ---------------------------------------------------------------------------
// sequential oracle
// ---------------------------------------------------------------------------

/// where in the case: index of the operation, or one of the fixed points
#[derive(Clone, Copy)]
enum At {
    Empty,
    Step(usize),
    SetupStep(usize),
    AfterSetup,
    /// the knowledge base that was left behind at a `clone()` and not touched since, observed at the end
    LeftBehind(usize),
}

impl std::fmt::Display for At {
    fn fmt(&self, f: &mut std::fmt::Formatter<'_>) -> std::fmt::Result {
        match self {
            At::Empty => write!(f, "empty base"),
            At::Step(i) => write!(f, "step {}", i),
            At::SetupStep(i) => write!(f, "setup step {}", i),
            At::AfterSetup => write!(f, "after setup"),
            At::LeftBehind(i) => write!(f, "at the end, on the object left untouched since the clone() before step {}", i),
        }
    }
}

fn fail_at(sig: &str, after: &str, step: At, op: &Op, res: &Res, before: &Model) -> Verdict {
    Verdict::fail(
        format!("{}@{}", sig, after),
        format!("{}: {} returned {} — not allowed by the model state before this call: {}", step, op, res, before.show()),
    )
}

/// all observers of the property, after the mutator `after` (or "new")
fn observe_all(kb: &KnowledgeBase, m: &mut Model, after: &'static str, step: At) -> Option<Verdict> {
    for o in OBSERVERS.iter() {
        let r = exec(kb, o);
        let before = m.clone();
        if let Err(sig) = m.step(o, &r) {
            return Some(fail_at(sig, after, step, o, &r, &before));
        }
        if let (Op::Order, Res::Order(ix)) = (o, &r) {
            // get_rules_by_salience mapped through get_rule_by_index gives the listing order
            let mapped: Vec<Option<RObs>> = ix.iter().map(|i| kb.get_rule_by_index(*i).as_ref().map(obs)).collect();
            let want: Vec<Option<RObs>> = m.listing().into_iter().map(Some).collect();
            if mapped != want {
                return Some(Verdict::fail(
                    format!("salience-order-by-index@{}", after),
                    format!("{}: get_rules_by_salience {:?} mapped through get_rule_by_index gives {:?}, model listing {}", step, ix, mapped, fmt_rules(&m.listing())),
                ));
            }
        }
    }
    // a third listing: get_rules_snapshot
    let snap: Vec<RObs> = kb.get_rules_snapshot().iter().map(obs).collect();
    if snap != m.listing() {
        return Some(Verdict::fail(
            format!("snapshot-listing@{}", after),
            format!("{}: get_rules_snapshot() = {}, model listing {}", step, fmt_rules(&snap), fmt_rules(&m.listing())),
        ));
    }
    None
}

pub fn run_seq(s: &mut Src, ctx: &mut Ctx) -> Verdict {
    let ops = gen_seq(s, ctx.exh);
    if probe_only() {
        return Verdict::Pass;
    }
    // drawn last: in one random history in four the knowledge base is cloned before some step; the history goes on with
    // the original or with the clone, and the other object - which nobody touches any more - must at the end still
    // answer every observer as it did when the two parted
    let clone_plan: Option<(usize, bool)> = if ctx.exh == 0 && s.chance(1, 4) { Some((s.below(ops.len() + 1), s.bool())) } else { None };
    ctx.describe(|| match clone_plan {
        Some((p, on_clone)) => format!("{} [clone() before step {}, the history continues on the {}]", join_ops(&ops), p, if on_clone { "clone" } else { "original" }),
        None => join_ops(&ops),
    });
    let mut kb = KnowledgeBase::new("kb");
    // a knowledge base that is not new (random histories of a length divisible by 3; a pure function of the case): 70
    // other rules were added, disabled and removed before, so the version counter is in the hundreds and the index
    // has been rebuilt many times
    if ctx.exh == 0 && ops.len() % 3 == 0 {
        for w in 0..70 {
            let _ = kb.add_rule(Rule::new(format!("warm{}", w), ConditionGroup::single(Condition::new("W.x".to_string(), Operator::Equal, Value::Integer(w))), vec![]).with_salience((w % 5) as i32));
        }
        for w in 0..70 {
            let _ = kb.set_rule_enabled(&format!("warm{}", w), false);
            let _ = kb.remove_rule(&format!("warm{}", w));
        }
        ctx.label("knowledge-base-not-new(warm-up)");
    }
    let mut m = Model::new(kb.version());
    if let Some(v) = observe_all(&kb, &mut m, "new", At::Empty) {
        return v;
    }
    let mut removed_names: u8 = 0;
    let mut shifting_remove = false;
    let mut left_behind: Option<(KnowledgeBase, Model, usize)> = None;
    let part_ways = |kb: &mut KnowledgeBase, m: &mut Model, pos: usize, on_clone: bool| -> (KnowledgeBase, Model, usize) {
        let c = kb.clone();
        // a clone holds the same rules in the same listing order; its version counter is its own
        let cm = Model { rules: m.listing(), vlo: c.version(), vexact: true };
        if on_clone {
            let orig = std::mem::replace(kb, c);
            let om = std::mem::replace(m, cm);
            (orig, om, pos)
        } else {
            (c, cm, pos)
        }
    };
    for (i, op) in ops.iter().enumerate() {
        if let Some((p, on_clone)) = clone_plan {
            if p == i {
                left_behind = Some(part_ways(&mut kb, &mut m, p, on_clone));
                ctx.label("clone-mid-history");
            }
        }
        let step = At::Step(i);
        let before = m.clone();
        let res = exec(&kb, op);
        if let Err(sig) = m.step(op, &res) {
            return fail_at(sig, op.kind(), step, op, &res, &before);
        }
        // classification (model states only)
        match (op, &res) {
            (Op::Add { n, sal, .. }, Res::Added(true)) => {
                ctx.label("add-ok");
                if removed_names & (1 << n) != 0 {
                    ctx.label("re-add-after-remove");
                }
                if before.rules.iter().any(|r| r.sal == *sal) {
                    ctx.label("add-equal-salience");
                }
                if before.rules.iter().any(|r| r.sal < *sal) {
                    ctx.label("add-sorted-before-existing");
                }
                if m.rules.len() == 4 {
                    ctx.label("all-4-names-stored");
                }
            }
            (Op::Add { .. }, Res::Added(false)) => ctx.label("add-duplicate-rejected"),
            (Op::Remove(n), Res::Flag(Some(true))) => {
                ctx.label("remove-hit");
                removed_names |= 1 << n;
                let l = before.listing();
                if l.last().map(|r| r.n) != Some(*n) {
                    ctx.label("remove-shifts-positions");
                    shifting_remove = true;
                }
            }
            (Op::Remove(_), _) => ctx.label("remove-miss"),
            (Op::Enable(..), Res::Flag(Some(true))) => {
                if before.rules == m.rules {
                    ctx.label("set-enabled-same-value");
                } else {
                    ctx.label("set-enabled-hit");
                }
            }
            (Op::Enable(..), _) => ctx.label("set-enabled-miss"),
            (Op::Clear, _) => {
                if before.rules.is_empty() {
                    ctx.label("clear-empty");
                } else {
                    ctx.label("clear-nonempty");
                    for r in &before.rules {
                        removed_names |= 1 << r.n;
                    }
                }
            }
            _ => {}
        }
        if let Some(v) = observe_all(&kb, &mut m, op.kind(), step) {
            return v;
        }
    }
    if let Some((p, on_clone)) = clone_plan {
        if p == ops.len() {
            left_behind = Some(part_ways(&mut kb, &mut m, p, on_clone));
        }
    }
    if let Some((other, mut om, p)) = left_behind {
        if let Some(v) = observe_all(&other, &mut om, "clone", At::LeftBehind(p)) {
            return v;
        }
        if let Some(v) = observe_all(&kb, &mut m, "clone", At::LeftBehind(p)) {
            return v;
        }
    }
    if shifting_remove {
        ctx.nontrivial(hash_of(&(&ops, clone_plan)));
    }
    Verdict::Pass
}

// ---------------------------------------------------------------------------
// concurrent part
// ---------------------------------------------------------------------------

thread_local! {
    /// xorshift state of the schedule-point callback for this thread; 0 = inert
    static SCHED: Cell<u64> = const { Cell::new(0) };
}

fn next_rand() -> u64 {
    SCHED.with(|c| {
        let mut x = c.get();
        if x == 0 {
            return 0;
        }
        x ^= x << 13;
        x ^= x >> 7;
        x ^= x << 17;
        c.set(x);
        x
    })
}

/// Process-global callback, pure function of thread-local state: threads that did not arm
/// `SCHED` (every other worker of the runner) are not affected.
fn sched_cb(_point: u32) {
    let x = next_rand();
    if x == 0 {
        return;
    }
    match (x >> 11) & 7 {
        0..=2 => std::thread::yield_now(),
        3 => {
            for _ in 0..((x >> 20) & 0x1ff) {
                std::hint::spin_loop();
            }
        }
        4 => {
            std::thread::yield_now();
            std::thread::yield_now();
        }
        _ => {}
    }
}

static INSTALL: Once = Once::new();

struct Rec {
    inv: u64,
    ret: u64,
    res: Res,
}

/// Everything the three threads of one program execution share. It is reference counted
/// because threads that are blocked for good (deadlock) cannot be stopped and keep it alive.
struct Shared {
    threads: [Vec<Op>; 3],
    kbs: Vec<KnowledgeBase>,
    barrier: AtomicUsize,
    clock: AtomicU64,
    /// number of calls that returned so far, all threads
    progress: AtomicU64,
    /// per thread: 1 + (repetition << 8 | index of the call in flight); 0 = not inside a call
    in_call: [AtomicU64; 3],
    abort: AtomicBool,
    seed: u64,
}

/// false = aborted by the supervisor
fn wait_for(sh: &Shared, target: usize) -> bool {
    let mut i = 0u32;
    while sh.barrier.load(Ordering::Acquire) < target {
        i = i.saturating_add(1);
        if i < 200 {
            std::hint::spin_loop();
        } else if i < 20_000 {
            std::thread::yield_now();
        } else {
            if sh.abort.load(Ordering::Relaxed) {
                return false;
            }
            std::thread::sleep(std::time::Duration::from_millis(1));
        }
    }
    true
}

fn worker(t: usize, sh: &Shared) -> Vec<Vec<Rec>> {
    let ops = &sh.threads[t];
    let mut out = Vec::with_capacity(sh.kbs.len());
    for (rep, kb) in sh.kbs.iter().enumerate() {
        SCHED.with(|c| c.set(splitmix(sh.seed ^ ((rep as u64) << 8) ^ t as u64) | 1));
        let mut recs = Vec::with_capacity(ops.len());
        sh.barrier.fetch_add(1, Ordering::AcqRel);
        if !wait_for(sh, 3 * (rep + 1)) {
            break;
        }
        for (i, op) in ops.iter().enumerate() {
            // de-phase the threads a little
            let x = next_rand();
            match (x >> 9) & 7 {
                0 => std::thread::yield_now(),
                1 | 2 => {
                    for _ in 0..((x >> 24) & 0x7f) {
                        std::hint::spin_loop();
                    }
                }
                _ => {}
            }
            sh.in_call[t].store(1 + (((rep as u64) << 8) | i as u64), Ordering::Relaxed);
            let inv = sh.clock.fetch_add(1, Ordering::SeqCst);
            let res = match catch(|| exec(kb, op)) {
                Ok(r) => r,
                Err(p) => Res::Panicked(p),
            };
            let ret = sh.clock.fetch_add(1, Ordering::SeqCst);
            sh.in_call[t].store(0, Ordering::Relaxed);
            sh.progress.fetch_add(1, Ordering::Relaxed);
            recs.push(Rec { inv, ret, res });
        }
        out.push(recs);
    }
    SCHED.with(|c| c.set(0));
    out
}

enum Execution {
    /// per thread, per repetition, the recorded calls
    Finished(Arc<Shared>, [Vec<Vec<Rec>>; 3]),
    /// no call returned while the supervisor polled `STALL_POLLS` times; which call each thread is inside
    Stalled(String),
    HarnessError(&'static str),
}

/// The supervisor counts its own polls, not elapsed time: a suspended process cannot look stalled.
const STALL_POLLS: u32 = 500; // x 10 ms of the supervisor's own waiting with zero calls returning

/// Run the three threads of `prog` on `kbs` (one prepared base per repetition).
fn execute(prog: &Prog, kbs: Vec<KnowledgeBase>, seed: u64) -> Execution {
    let sh = Arc::new(Shared {
        threads: prog.threads.clone(),
        kbs,
        barrier: AtomicUsize::new(0),
        clock: AtomicU64::new(0),
        progress: AtomicU64::new(0),
        in_call: [AtomicU64::new(0), AtomicU64::new(0), AtomicU64::new(0)],
        abort: AtomicBool::new(false),
        seed,
    });
    let (tx, rx) = std::sync::mpsc::channel::<(usize, Vec<Vec<Rec>>)>();
    for t in 0..3 {
        let (sh2, tx2) = (sh.clone(), tx.clone());
        let spawned = std::thread::Builder::new().name(format!("c15-t{}", t)).spawn(move || {
            let r = worker(t, &sh2);
            let _ = tx2.send((t, r));
        });
        if spawned.is_err() {
            sh.abort.store(true, Ordering::Relaxed);
            return Execution::HarnessError("harness-thread-spawn");
        }
    }
    drop(tx);
    let mut got: [Option<Vec<Vec<Rec>>>; 3] = [None, None, None];
    let mut n = 0;
    let mut last = 0u64;
    let mut still = 0u32;
    while n < 3 {
        match rx.recv_timeout(std::time::Duration::from_millis(10)) {
            Ok((t, r)) => {
                got[t] = Some(r);
                n += 1;
                still = 0;
            }
            Err(std::sync::mpsc::RecvTimeoutError::Timeout) => {
                let p = sh.progress.load(Ordering::Relaxed);
                if p != last {
                    last = p;
                    still = 0;
                } else {
                    still += 1;
                    if still >= STALL_POLLS {
                        let mut d = String::new();
                        for t in 0..3 {
                            let c = sh.in_call[t].load(Ordering::Relaxed);
                            if c == 0 {
                                let _ = write!(d, " T{}: not inside a call (waiting for the other threads);", t);
                            } else {
                                let (rep, i) = ((c - 1) >> 8, ((c - 1) & 0xff) as usize);
                                let _ = write!(d, " T{}: inside {} (call {} of repetition {}) which never returned;", t, sh.threads[t][i], i, rep);
                            }
                        }
                        sh.abort.store(true, Ordering::Relaxed);
                        return Execution::Stalled(d);
                    }
                }
            }
            Err(std::sync::mpsc::RecvTimeoutError::Disconnected) => return Execution::HarnessError("harness-thread-died"),
        }
    }
    let [a, b, c] = got;
    Execution::Finished(sh, [a.unwrap_or_default(), b.unwrap_or_default(), c.unwrap_or_default()])
}

/// Wing–Gong search: is there a total order of the calls that respects real time
/// (a call that returned before another was invoked comes first), in which every
/// recorded result is allowed by the sequential model, and (if `finals` is given)
/// after which the model accepts the observations made once all threads were joined?
fn linearizable(m0: &Model, prog: &[Vec<Op>; 3], hist: &[&[Rec]; 3], finals: Option<&[(Op, Res)]>) -> bool {
    fn go(
        m: &Model,
        pos: [u8; 3],
        prog: &[Vec<Op>; 3],
        hist: &[&[Rec]; 3],
        finals: Option<&[(Op, Res)]>,
        dead: &mut HashSet<([u8; 3], Model)>,
    ) -> bool {
        if (0..3).all(|t| pos[t] as usize >= hist[t].len()) {
            return match finals {
                None => true,
                Some(f) => {
                    let mut mm = m.clone();
                    f.iter().all(|(o, r)| mm.step(o, r).is_ok())
                }
            };
        }
        for t in 0..3 {
            let p = pos[t] as usize;
            if p >= hist[t].len() {
                continue;
            }
            let a = &hist[t][p];
            // `a` may come first only if no other pending call returned before `a` was invoked
            if (0..3).any(|u| u != t && (pos[u] as usize) < hist[u].len() && hist[u][pos[u] as usize].ret < a.inv) {
                continue;
            }
            let mut mm = m.clone();
            if mm.step(&prog[t][p], &a.res).is_err() {
                continue;
            }
            let mut p2 = pos;
            p2[t] += 1;
            let key = (p2, mm);
            if dead.contains(&key) {
                continue;
            }
            if go(&key.1, p2, prog, hist, finals, dead) {
                return true;
            }
            dead.insert(key);
        }
        false
    }
    let mut dead = HashSet::new();
    go(m0, [0; 3], prog, hist, finals, &mut dead)
}

fn show_history(prog: &Prog, hist: &[&[Rec]; 3], finals: &[(Op, Res)]) -> String {
    let mut s = String::new();
    for t in 0..3 {
        let _ = write!(s, " T{}:", t);
        for (i, r) in hist[t].iter().enumerate() {
            let _ = write!(s, " [{}..{}] {} -> {};", r.inv, r.ret, prog.threads[t][i], r.res);
        }
    }
    let _ = write!(s, " after join:");
    for (o, r) in finals {
        let _ = write!(s, " {} -> {};", o, r);
    }
    s
}

/// fresh bases, one per repetition, each brought to the same start state sequentially (and checked)
fn prepare(prog: &Prog, reps: usize) -> Result<(Vec<KnowledgeBase>, Model), Verdict> {
    let mut kbs: Vec<KnowledgeBase> = Vec::with_capacity(reps);
    let mut m0 = Model::new(0);
    for rep in 0..reps {
        let kb = KnowledgeBase::new("kb");
        let mut m = Model::new(kb.version());
        for (i, op) in prog.setup.iter().enumerate() {
            let before = m.clone();
            let r = exec(&kb, op);
            if let Err(sig) = m.step(op, &r) {
                return Err(fail_at(sig, "setup", At::SetupStep(i), op, &r, &before));
            }
        }
        if let Some(v) = observe_all(&kb, &mut m, "setup", At::AfterSetup) {
            return Err(v);
        }
        if rep == 0 {
            m0 = m;
        } else if m != m0 {
            return Err(Verdict::fail("setup-not-deterministic", format!("repetition {}: {} vs {}", rep, m.show(), m0.show())));
        }
        kbs.push(kb);
    }
    Ok((kbs, m0))
}

pub fn run_conc(s: &mut Src, ctx: &mut Ctx) -> Verdict {
    let prog = gen_prog(s);
    if probe_only() {
        return Verdict::Pass;
    }
    ctx.describe(|| {
        format!(
            "setup: {} | T0: {} | T1: {} | T2: {} | sched-seed {}",
            join_ops(&prog.setup),
            join_ops(&prog.threads[0]),
            join_ops(&prog.threads[1]),
            join_ops(&prog.threads[2]),
            prog.sched_seed
        )
    });
    INSTALL.call_once(|| rust_rule_engine::verif_hooks::set_sched_callback(Some(sched_cb)));
    let reps: usize = if ctx.thorough { 500 } else { 50 };

    let seed = splitmix(hash_of(&prog));
    let mut attempt = 0;
    let mut first_stall: Option<String> = None;
    let (sh, mut per_thread, m0) = loop {
        let (kbs, m0) = match prepare(&prog, reps) {
            Ok(x) => x,
            Err(v) => return v,
        };
        match execute(&prog, kbs, seed.wrapping_add(attempt)) {
            Execution::Finished(sh, h) => {
                if first_stall.is_none() {
                    break (sh, h, m0);
                }
                // an earlier execution stalled; it counts only if the same program stalls again
                attempt += 1;
                if attempt > 3 {
                    ctx.label("stall-not-reproduced");
                    return Verdict::Discard("stall-not-reproduced-in-3-re-executions");
                }
            }
            Execution::Stalled(d) => match &first_stall {
                None => {
                    first_stall = Some(d);
                    attempt += 1;
                }
                Some(f) => {
                    return Verdict::fail(
                        "conc-deadlock",
                        format!(
                            "the program stopped making progress (no call returned during {} supervisor polls of 10 ms) in two executions. first:{} | again:{}",
                            STALL_POLLS, f, d
                        ),
                    );
                }
            },
            Execution::HarnessError(e) => return Verdict::fail(e, "the harness could not run its threads"),
        }
    };
    if per_thread.iter().any(|h| h.len() != reps) {
        return Verdict::fail("harness-thread-died", "a harness thread ended without recording all repetitions");
    }

    let mut any_mut_overlap = false;
    let mut outcomes: HashSet<u64> = HashSet::new();
    for rep in 0..reps {
        let kb = &sh.kbs[rep];
        let finals: Vec<(Op, Res)> = OBSERVERS
            .iter()
            .map(|o| {
                let r = match catch(|| exec(kb, o)) {
                    Ok(r) => r,
                    Err(p) => Res::Panicked(p),
                };
                (o.clone(), r)
            })
            .collect();
        let h0 = std::mem::take(&mut per_thread[0][rep]);
        let h1 = std::mem::take(&mut per_thread[1][rep]);
        let h2 = std::mem::take(&mut per_thread[2][rep]);
        let hist: [&[Rec]; 3] = [&h0, &h1, &h2];

        // a panic inside a call is a violation by itself ("returns …"); the earliest one names the mechanism
        // (later calls only trip over the poisoned lock)
        let mut first: Option<(usize, usize, &Rec)> = None;
        for t in 0..3 {
            for (i, r) in hist[t].iter().enumerate() {
                if matches!(r.res, Res::Panicked(_)) && first.map(|f| r.inv < f.2.inv).unwrap_or(true) {
                    first = Some((t, i, r));
                }
            }
        }
        if let Some((t, i, r)) = first {
            let p = r.res.to_string();
            let loc = p.trim_start_matches("PANIC ").split(": ").next().unwrap_or("?").to_string();
            return Verdict::fail(
                format!("conc-panic-in-{}@{}", prog.threads[t][i].kind(), loc),
                format!("repetition {}: T{} call {} panicked: {} | history:{}", rep, t, prog.threads[t][i], p, show_history(&prog, &hist, &finals)),
            );
        }
        for (o, r) in &finals {
            if let Res::Panicked(p) = r {
                return Verdict::fail(
                    format!("conc-panic-after-join-in-{}", o.kind()),
                    format!("repetition {}: {} after join panicked: {} | history:{}", rep, o, p, show_history(&prog, &hist, &finals)),
                );
            }
        }

        if !linearizable(&m0, &prog.threads, &hist, Some(&finals)) {
            let sig = if linearizable(&m0, &prog.threads, &hist, None) { "conc-final-state-mismatch" } else { "conc-not-linearizable" };
            return Verdict::fail(
                sig,
                format!(
                    "repetition {}: no order of the calls that respects real time is accepted by the sequential model{} | start: {} | history [invoke..return stamps]:{}",
                    rep,
                    if sig == "conc-final-state-mismatch" { " together with the state read after join (the call results alone are explainable)" } else { "" },
                    m0.show(),
                    show_history(&prog, &hist, &finals)
                ),
            );
        }

        // classification: truly overlapping calls of different threads
        let mut mm = false;
        let mut mr = false;
        let mut rr = false;
        for t in 0..3 {
            for u in (t + 1)..3 {
                for (i, a) in hist[t].iter().enumerate() {
                    for (j, b) in hist[u].iter().enumerate() {
                        if a.inv < b.ret && b.inv < a.ret {
                            match (prog.threads[t][i].is_mutator(), prog.threads[u][j].is_mutator()) {
                                (true, true) => mm = true,
                                (false, false) => rr = true,
                                _ => mr = true,
                            }
                        }
                    }
                }
            }
        }
        if mm {
            ctx.label("overlap:mutator-mutator");
        }
        if mr {
            ctx.label("overlap:mutator-reader");
        }
        if rr {
            ctx.label("overlap:reader-reader");
        }
        any_mut_overlap |= mm || mr;
        let mut hh = std::collections::hash_map::DefaultHasher::new();
        use std::hash::{Hash, Hasher};
        for t in 0..3 {
            for r in hist[t] {
                format!("{}", r.res).hash(&mut hh);
            }
        }
        for (_, r) in &finals {
            format!("{}", r).hash(&mut hh);
        }
        outcomes.insert(hh.finish());
    }
    ctx.label(match outcomes.len() {
        1 => "outcomes-seen:1",
        2..=3 => "outcomes-seen:2-3",
        4..=9 => "outcomes-seen:4-9",
        _ => "outcomes-seen:10+",
    });
    let muts = prog.threads.iter().flatten().filter(|o| o.is_mutator()).count();
    ctx.label(match muts {
        0 => "mutators:0",
        1..=3 => "mutators:1-3",
        4..=7 => "mutators:4-7",
        _ => "mutators:8+",
    });
    if any_mut_overlap {
        ctx.nontrivial(hash_of(&(&prog.setup, &prog.threads)));
    } else {
        ctx.label("overlap:none-with-mutator");
    }
    Verdict::Pass
}

/// Part `many`: larger knowledge bases (21-60 rules, few salience values). The statement's listing clause is
/// universal; small bases cannot see an unstable sort (slices of <= 20 elements are sorted stably by std's
/// unstable sort), so this part adds and removes rules in a base that is larger than that and compares the
/// listing, the lookups and the index-based order with a plain model (stable sort of the insertion list).
pub fn run_many(s: &mut Src, ctx: &mut Ctx) -> Verdict {
    let n = 21 + s.below(40);
    let nsal = 1 + s.below(3);
    // (name index, salience); names are unique, a few removals and re-adds are interleaved
    let mut ops: Vec<(bool, usize, i32)> = Vec::new(); // (add?, name, salience)
    let mut next_name = 0usize;
    let mut live: Vec<usize> = Vec::new();
    for _ in 0..n {
        if !live.is_empty() && s.chance(1, 10) {
            let k = s.below(live.len());
            ops.push((false, live.remove(k), 0));
        } else {
            let sal = (s.below(nsal) as i32) * 5 - 5;
            ops.push((true, next_name, sal));
            live.push(next_name);
            next_name += 1;
        }
    }
    if probe_only() {
        return Verdict::Pass;
    }
    ctx.describe(|| format!("many-rules ops (add?, name, salience): {:?}", ops));
    let kb = KnowledgeBase::new("many");
    let mut model: Vec<(usize, i32)> = Vec::new(); // insertion order
    let mut saw_big_tie_add = false;
    for (i, (add, name, sal)) in ops.iter().enumerate() {
        let rname = format!("m{}", name);
        if *add {
            let cond = ConditionGroup::single(Condition::new("F.x".to_string(), Operator::Equal, Value::Boolean(true)));
            let rule = Rule::new(rname.clone(), cond, vec![]).with_salience(*sal);
            if kb.add_rule(rule).is_err() {
                return Verdict::fail("many:add-rejected", format!("op {}: add_rule({}) of a fresh name returned Err", i, rname));
            }
            if model.len() >= 20 && model.iter().any(|(_, s2)| s2 == sal) && model.last().map(|(_, l)| sal > l).unwrap_or(false) {
                saw_big_tie_add = true;
            }
            model.push((*name, *sal));
        } else {
            match kb.remove_rule(&rname) {
                Ok(true) => {}
                other => return Verdict::fail("many:remove-result", format!("op {}: remove_rule({}) of a stored rule returned {:?}", i, rname, other.map_err(|e| e.to_string()))),
            }
            model.retain(|(nm, _)| nm != name);
        }
        let mut want = model.clone();
        want.sort_by(|a, b| b.1.cmp(&a.1)); // stable
        let want_names: Vec<String> = want.iter().map(|(nm, _)| format!("m{}", nm)).collect();
        let got: Vec<String> = kb.get_rules().iter().map(|r| r.name.clone()).collect();
        if got != want_names {
            let sig = if { let mut a = got.clone(); a.sort(); let mut b = want_names.clone(); b.sort(); a == b } { "many:listing-order" } else { "many:listing-content" };
            return Verdict::fail(sig, format!("after op {}: get_rules() = {:?}, expected (salience desc, insertion order among equals) {:?}", i, got, want_names));
        }
        let by_idx: Vec<String> = kb.get_rules_by_salience().iter().filter_map(|ix| kb.get_rule_by_index(*ix)).map(|r| r.name).collect();
        if by_idx != want_names {
            return Verdict::fail("many:salience-order-by-index", format!("after op {}: get_rules_by_salience + get_rule_by_index = {:?}, expected {:?}", i, by_idx, want_names));
        }
        if kb.rule_count() != model.len() {
            return Verdict::fail("many:rule-count", format!("after op {}: rule_count {} but {} stored", i, kb.rule_count(), model.len()));
        }
        // spot lookups: the first, the last and the just-touched name
        for (nm, sal2) in [model.first(), model.last()].into_iter().flatten() {
            match kb.get_rule(&format!("m{}", nm)) {
                Some(r) if r.salience == *sal2 && r.name == format!("m{}", nm) => {}
                other => return Verdict::fail("many:lookup", format!("after op {}: get_rule(m{}) = {:?}", i, nm, other.map(|r| (r.name, r.salience)))),
            }
        }
        if !*add && kb.get_rule(&rname).is_some() {
            return Verdict::fail("many:lookup-returns-removed-rule", format!("after op {}: get_rule({}) still returns the removed rule", i, rname));
        }
    }
    if saw_big_tie_add {
        ctx.label("add-above-last-with-ties-in-base>20");
    }
    if model.len() > 20 {
        ctx.nontrivial(hash_of(&ops));
    }
    Verdict::Pass
}

pub fn property() -> Property {
    Property {
        id: "C15",
        level: "exploration",
        rule: "sequential parts: operation sequences over the 25-letter alphabet {add(4 names x 3 saliences), remove(4), set_enabled(4 x 2), clear} — exhaustively all sequences of length 4 (quick) / 5 (thorough), plus random sequences of length 1..8 (adds may start disabled, 3 salience sets incl. i32::MIN/MAX). Oracle: model = insertion-ordered list + version rule written from the statement; after EVERY operation: its return value, get_rule for all 4 names (salience, enabled, identity tag of the most recent add), get_rules order (salience desc, insertion order among equals), get_rule_names as a set, rule_count, get_rules_by_salience mapped through get_rule_by_index, get_statistics totals, version (strictly grown after add ok / remove true / effective set_enabled / clear of a non-empty base, unchanged after a rejected call, either after a successful call that changes nothing). Non-trivial: the sequence contains a successful remove of a rule that is not last in the listing (positions of other stored rules shift, then every name is looked up); distinct by operation sequence. Concurrent part: programs of 0..4 setup adds + 3 threads x 1..4 calls (mutators + readers get_rule/get_rules/get_rule_names/rule_count/version/get_statistics/get_rules_by_salience) on one Arc<KnowledgeBase>, each program repeated 50x (quick) / 500x (thorough) with pseudo-random yields/spins at the engine's schedule points; every call stamped before/after with an atomic counter; oracle: Wing-Gong search for a linearisation accepted by the same sequential model whose final state also explains all observers read after join; a panic in a call is a violation; a deadlock (no call returns during 500 supervisor polls of 10 ms) is reported only if a re-execution of the same program stalls again, the runner watchdog is the backstop. Non-trivial: in at least one repetition two calls of different threads truly overlap (stamps interleave) and one of them is a mutator; distinct by program. Concurrent part, drawn last: 1 program in 3 has a thread take a clone() of the knowledge base somewhere in its sequence and read listing, names, count and every lookup off the copy (CloneView); the linearisation must place it at a point within the call where all four describe the model state.",
        assumptions: vec![
            "schedule coverage is what the OS plus the yield hook produce (stress testing with a sound oracle, not schedule enumeration)".into(),
            "a successful call that changes nothing (clear of an empty base, set_enabled to the current value) may or may not bump the version; version values are only required to grow by >= 1 per real change".into(),
            "get_rules_by_salience + get_rule_by_index is two calls and is judged as a pair only sequentially; concurrently only the index vector (a permutation of 0..count) is judged".into(),
        ],
        parts: vec![
            Part { name: "exh4", run: run_seq, quick: Budget::Exhaustive { param: 4 }, thorough: Budget::Exhaustive { param: 4 }, min_nontrivial_pct: 0 },
            Part { name: "exh5", run: run_seq, quick: Budget::Skip, thorough: Budget::Exhaustive { param: 5 }, min_nontrivial_pct: 0 },
            Part { name: "random", run: run_seq, quick: Budget::Random { cases: 1_000_000, bytes: 64 }, thorough: Budget::Random { cases: 5_000_000, bytes: 64 }, min_nontrivial_pct: 15 },
            Part { name: "many", run: run_many, quick: Budget::Random { cases: 40_000, bytes: 160 }, thorough: Budget::Random { cases: 200_000, bytes: 160 }, min_nontrivial_pct: 30 },
            Part { name: "conc", run: run_conc, quick: Budget::Random { cases: 16_000, bytes: 64 }, thorough: Budget::Random { cases: 50_000, bytes: 64 }, min_nontrivial_pct: 40 },
        ],
        watchdog: true,
        replay_reps: 25,
    }
}
