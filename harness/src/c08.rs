//! C08 — truth maintenance keeps exactly the facts that still have support.
//!
//! Generator: histories of explicit insertions, logical insertions with
//! premises, additional logical justifications and retractions over a handful
//! of facts; every premise is live when its justification is recorded and a
//! justification added later only uses premises created before its fact, so the
//! support graph is acyclic (the shapes the quantifier names).
//!
//! Oracle: a model written from the statement (set of live facts + list of
//! justifications; a retraction removes its target and then, to a fixpoint,
//! every fact without an explicit justification and without a justification all
//! of whose premises are live). Two sub-oracles ("parts"):
//!
//! * `engine-*`: a real `IncrementalEngine` without rules; after every operation
//!   every handle ever issued is looked up in working memory and in the TMS.
//! * `tms-*`: a bare `TruthMaintenanceSystem`; the value returned by
//!   `retract_with_cascade` is compared with the set the model removes.

use crate::core::*;
use crate::runner::*;
use rust_rule_engine::rete::{FactHandle, FactValue, IncrementalEngine, TruthMaintenanceSystem, TypedFacts};

/// One operation of a history. Facts are named by their creation index.
#[derive(Clone, Debug, Hash, PartialEq, Eq)]
enum Op {
    /// explicit insertion (`true`: through `insert`, `false`: through `insert_explicit`)
    Ins(bool),
    /// `insert_logical` with these premises
    Log(Vec<usize>),
    /// `tms_mut().add_logical_justification(target, premises)`
    Just(usize, Vec<usize>),
    /// `retract(fact)`
    Ret(usize),
}

// ---------------------------------------------------------------------------
// model (written from the statement, not from the engine)
// ---------------------------------------------------------------------------

#[derive(Clone, Default)]
struct Model {
    live: Vec<bool>,
    explicit: Vec<bool>,
    /// (justified fact, premises)
    justs: Vec<(usize, Vec<usize>)>,
}

#[derive(Default, Debug)]
struct RetInfo {
    was_live: bool,
    target_derived: bool,
    /// facts removed by this call, target first
    removed: Vec<usize>,
    /// number of fixpoint rounds that removed something (1 = only direct dependents)
    depth: usize,
    /// a surviving fact lost a justification in this call and lives on through another logical one
    saved_by_second: bool,
    /// a surviving fact lost a logical justification in this call and lives on through its explicit one
    saved_by_explicit: bool,
    /// a removed fact had two removed premises in one justification, or two justifications invalidated by this call
    join_removed: bool,
    /// a removed fact had more than one justification
    multi_just_removed: bool,
}

impl Model {
    fn n(&self) -> usize {
        self.live.len()
    }
    fn has_logical(&self, f: usize) -> bool {
        self.justs.iter().any(|(t, _)| *t == f)
    }
    fn just_valid(&self, j: usize) -> bool {
        self.justs[j].1.iter().all(|&p| self.live[p])
    }
    /// support as the statement defines it
    fn supported(&self, f: usize) -> bool {
        self.explicit[f] || (0..self.justs.len()).any(|j| self.justs[j].0 == f && self.just_valid(j))
    }
    fn live_list(&self) -> Vec<usize> {
        (0..self.n()).filter(|&f| self.live[f]).collect()
    }
    fn apply(&mut self, op: &Op) -> Option<RetInfo> {
        match op {
            Op::Ins(_) => {
                self.live.push(true);
                self.explicit.push(true);
                None
            }
            Op::Log(p) => {
                let f = self.n();
                self.live.push(true);
                self.explicit.push(false);
                self.justs.push((f, p.clone()));
                None
            }
            Op::Just(t, p) => {
                self.justs.push((*t, p.clone()));
                None
            }
            Op::Ret(x) => Some(self.retract(*x)),
        }
    }
    fn retract(&mut self, x: usize) -> RetInfo {
        let mut info = RetInfo::default();
        if !self.live[x] {
            return info;
        }
        info.was_live = true;
        info.target_derived = !self.explicit[x];
        let valid_before: Vec<bool> = (0..self.justs.len()).map(|j| self.just_valid(j)).collect();
        self.live[x] = false;
        info.removed.push(x);
        loop {
            let dead: Vec<usize> = (0..self.n()).filter(|&f| self.live[f] && !self.supported(f)).collect();
            if dead.is_empty() {
                break;
            }
            info.depth += 1;
            for f in dead {
                self.live[f] = false;
                info.removed.push(f);
            }
        }
        // classification only
        let removed = &info.removed;
        for f in 0..self.n() {
            let mine: Vec<usize> = (0..self.justs.len()).filter(|&j| self.justs[j].0 == f).collect();
            let lost: Vec<usize> = mine.iter().copied().filter(|&j| valid_before[j] && !self.just_valid(j)).collect();
            if self.live[f] {
                if !lost.is_empty() {
                    if self.explicit[f] {
                        info.saved_by_explicit = true;
                    } else {
                        info.saved_by_second = true;
                    }
                }
            } else if f != x && removed.contains(&f) {
                if mine.len() > 1 {
                    info.multi_just_removed = true;
                }
                let two_in_one = lost.iter().any(|&j| self.justs[j].1.iter().filter(|p| removed.contains(p)).count() >= 2);
                if lost.len() >= 2 || two_in_one {
                    info.join_removed = true;
                }
            }
        }
        info
    }
}

// ---------------------------------------------------------------------------
// generator
// ---------------------------------------------------------------------------

/// All operations the domain allows in state `m` (exhaustive mode).
fn enumerate_ops(m: &Model, max_facts: usize, max_prem: usize) -> Vec<Op> {
    let mut out = Vec::new();
    let live = m.live_list();
    let subsets = |pool: &[usize]| -> Vec<Vec<usize>> {
        let mut v: Vec<Vec<usize>> = pool.iter().map(|&a| vec![a]).collect();
        if max_prem >= 2 {
            for i in 0..pool.len() {
                for j in i + 1..pool.len() {
                    v.push(vec![pool[i], pool[j]]);
                }
            }
        }
        if max_prem >= 3 {
            for i in 0..pool.len() {
                for j in i + 1..pool.len() {
                    for k in j + 1..pool.len() {
                        v.push(vec![pool[i], pool[j], pool[k]]);
                    }
                }
            }
        }
        v
    };
    if m.n() < max_facts {
        out.push(Op::Ins(false));
    }
    for x in 0..m.n() {
        out.push(Op::Ret(x));
    }
    if m.n() < max_facts {
        for p in subsets(&live) {
            out.push(Op::Log(p));
        }
    }
    for &t in &live {
        let pool: Vec<usize> = live.iter().copied().filter(|&p| p < t).collect();
        for p in subsets(&pool) {
            out.push(Op::Just(t, p));
        }
    }
    out
}

type PrefixKey = (usize, usize, usize);
thread_local! {
    static PREFIXES: std::cell::RefCell<std::collections::BTreeMap<PrefixKey, std::rc::Rc<Vec<Vec<Op>>>>> = const { std::cell::RefCell::new(std::collections::BTreeMap::new()) };
}

/// Every valid history of exactly `k` operations, in enumeration order (pure function of its arguments; cached per thread).
fn prefixes(max_facts: usize, max_prem: usize, k: usize) -> std::rc::Rc<Vec<Vec<Op>>> {
    PREFIXES.with(|c| {
        c.borrow_mut()
            .entry((max_facts, max_prem, k))
            .or_insert_with(|| {
                let mut done: Vec<(Model, Vec<Op>)> = vec![(Model::default(), Vec::new())];
                for _ in 0..k {
                    let mut next = Vec::new();
                    for (m, ops) in &done {
                        for op in enumerate_ops(m, max_facts, max_prem) {
                            let mut m2 = m.clone();
                            m2.apply(&op);
                            let mut o2 = ops.clone();
                            o2.push(op);
                            next.push((m2, o2));
                        }
                    }
                    done = next;
                }
                std::rc::Rc::new(done.into_iter().map(|x| x.1).collect())
            })
            .clone()
    })
}

fn pick_premises(s: &mut Src, pool: &[usize]) -> Vec<usize> {
    let k = (1 + s.weighted(&[5, 3, 1])).min(pool.len());
    let mut rest: Vec<usize> = pool.to_vec();
    let mut p = Vec::new();
    for _ in 0..k {
        let i = s.below(rest.len());
        p.push(rest.remove(i));
    }
    p.sort_unstable();
    p
}

const MAX_OPS: usize = 10;
const MAX_FACTS: usize = 7;

fn random_op(s: &mut Src, m: &Model, shaped: bool) -> Op {
    let live = m.live_list();
    let w: [u32; 4] = if shaped { [1, 6, 2, 2] } else { [3, 4, 4, 3] };
    let mut kind = s.weighted(&w);
    // targets of an added justification: live facts that have a live, earlier-created fact
    let cands: Vec<usize> = live.iter().copied().filter(|&t| live.iter().any(|&p| p < t)).collect();
    let logical_cands: Vec<usize> = cands.iter().copied().filter(|&t| !m.explicit[t]).collect();
    if kind == 3 && cands.is_empty() {
        kind = 2;
    }
    if kind == 2 && live.is_empty() {
        kind = 0;
    }
    if (kind == 0 || kind == 2) && m.n() >= MAX_FACTS {
        kind = 1;
    }
    if kind == 1 && m.n() == 0 {
        kind = 0;
    }
    match kind {
        0 => Op::Ins(s.chance(1, 4)),
        1 => {
            // mostly a live fact; sometimes any handle ever issued (possibly already absent)
            if live.is_empty() || s.chance(1, 6) {
                Op::Ret(s.below(m.n()))
            } else {
                Op::Ret(live[s.below(live.len())])
            }
        }
        2 => Op::Log(pick_premises(s, &live)),
        _ => {
            let mixed = s.chance(1, 5);
            let pool_t = if logical_cands.is_empty() || mixed { &cands } else { &logical_cands };
            let t = pool_t[s.below(pool_t.len())];
            let pool: Vec<usize> = live.iter().copied().filter(|&p| p < t).collect();
            Op::Just(t, pick_premises(s, &pool))
        }
    }
}

fn gen(s: &mut Src, exh: u32) -> (&'static str, Vec<Op>) {
    let mut m = Model::default();
    let mut ops: Vec<Op> = Vec::new();
    if exh > 0 {
        // exh = ops*100 + facts*10 + premises
        let n = (exh / 100) as usize;
        let max_facts = ((exh / 10) % 10) as usize;
        let max_prem = (exh % 10) as usize;
        // The first (up to) four operations are drawn as ONE choice among all valid prefixes: the leaves are
        // the same, but the runner splits the tree over its workers by the first three draws and a wide
        // first draw balances them.
        let k = n.min(4);
        let pre = prefixes(max_facts, max_prem, k);
        let chosen = if pre.len() == 1 { &pre[0] } else { &pre[s.below(pre.len())] };
        for op in chosen {
            m.apply(op);
            ops.push(op.clone());
        }
        for _ in k..n {
            let opts = enumerate_ops(&m, max_facts, max_prem);
            let op = if opts.len() == 1 { opts[0].clone() } else { opts[s.below(opts.len())].clone() };
            m.apply(&op);
            ops.push(op);
        }
        return ("enum", ops);
    }
    let shape = s.weighted(&[4, 2, 2, 2, 2, 1]);
    let (name, prefix): (&'static str, Vec<Op>) = match shape {
        0 => ("free", vec![]),
        1 => ("chain", vec![Op::Ins(false), Op::Log(vec![0]), Op::Log(vec![1]), Op::Log(vec![2])]),
        2 => ("diamond-and", vec![Op::Ins(false), Op::Log(vec![0]), Op::Log(vec![0]), Op::Log(vec![1, 2])]),
        3 => ("diamond-or", vec![Op::Ins(false), Op::Log(vec![0]), Op::Log(vec![0]), Op::Log(vec![1]), Op::Just(3, vec![2])]),
        4 => ("shared-premise", vec![Op::Ins(false), Op::Ins(false), Op::Ins(false), Op::Log(vec![0, 1]), Op::Just(3, vec![0, 2])]),
        // an explicitly inserted fact that additionally has a logical justification, and a fact derived from it
        _ => ("explicit-plus-logical", vec![Op::Ins(false), Op::Ins(false), Op::Just(1, vec![0]), Op::Log(vec![1])]),
    };
    for op in &prefix {
        m.apply(op);
    }
    ops.extend(prefix);
    let extra = s.below(MAX_OPS - ops.len() + 1);
    for _ in 0..extra {
        let op = random_op(s, &m, shape != 0);
        m.apply(&op);
        ops.push(op);
    }
    (name, ops)
}

// ---------------------------------------------------------------------------
// shared bookkeeping
// ---------------------------------------------------------------------------

fn show(ops: &[Op]) -> String {
    let mut out = Vec::new();
    let mut n = 0usize;
    for op in ops {
        out.push(match op {
            Op::Ins(plain) => {
                n += 1;
                format!("f{}=insert{}", n - 1, if *plain { "" } else { "_explicit" })
            }
            Op::Log(p) => {
                n += 1;
                format!("f{}=insert_logical{:?}", n - 1, p)
            }
            Op::Just(t, p) => format!("add_justification(f{},{:?})", t, p),
            Op::Ret(x) => format!("retract(f{})", x),
        });
    }
    out.join("; ")
}

#[derive(Default)]
struct Classes {
    nontrivial: bool,
}

fn classify(ctx: &mut Ctx, cl: &mut Classes, op: &Op, m: &Model, info: &Option<RetInfo>) {
    match op {
        Op::Just(t, _) if m.explicit[*t] => ctx.label("justification-added-to-explicit-fact"),
        Op::Just(..) => ctx.label("second-justification-added"),
        Op::Log(p) if p.len() >= 2 => ctx.label("multi-premise-justification"),
        _ => {}
    }
    let Some(i) = info else { return };
    if !i.was_live {
        ctx.label("retract-absent");
        return;
    }
    if i.removed.len() >= 2 {
        ctx.label("NT:retraction-removes>=2");
        cl.nontrivial = true;
    } else {
        ctx.label("retraction-removes-1");
    }
    if i.depth >= 2 {
        ctx.label("cascade-depth>=2");
    }
    if i.saved_by_second {
        ctx.label("NT:alive-by-second-justification");
        cl.nontrivial = true;
    }
    if i.saved_by_explicit {
        ctx.label("NT:alive-by-explicit-justification");
        cl.nontrivial = true;
    }
    if i.target_derived {
        ctx.label("NT:retract-derived");
        cl.nontrivial = true;
    } else {
        ctx.label("retract-explicit");
    }
    if i.join_removed {
        ctx.label("join-fact-removed");
    }
    if i.multi_just_removed {
        ctx.label("multi-justified-fact-removed");
    }
}

fn finish(ctx: &mut Ctx, cl: &Classes, shape: &'static str, ops: &[Op]) {
    ctx.label(match shape {
        "free" => "shape:free",
        "chain" => "shape:chain",
        "diamond-and" => "shape:diamond-and",
        "diamond-or" => "shape:diamond-or",
        "shared-premise" => "shape:shared-premise",
        "explicit-plus-logical" => "shape:explicit-plus-logical",
        _ => "shape:enumerated",
    });
    if cl.nontrivial {
        ctx.nontrivial(hash_of(ops));
    }
}

/// TMS flags that both parts check after every operation.
/// The facts of a history that bypass the truth maintenance: every plain insert at a step = 2 (mod 3) -- unless the
/// history later hands the TMS a logical justification FOR that fact (`add_justification(f, ..)`): a TMS that was
/// never told the fact is explicit would rightly treat it as a derived one, so such facts take the ordinary road.
fn raw_facts(ops: &[Op]) -> Vec<usize> {
    let mut n = 0usize;
    let mut out = vec![];
    for (step, op) in ops.iter().enumerate() {
        if matches!(op, Op::Ins(_) | Op::Log(_)) {
            if matches!(op, Op::Ins(true)) && step % 3 == 2 && !ops.iter().any(|o| matches!(o, Op::Just(t, _) if *t == n)) {
                out.push(n);
            }
            n += 1;
        }
    }
    out
}

/// `raw`: facts the truth maintenance was never told about (put straight into working memory): its flags say
/// nothing about them, only their presence is judged (by the caller).
fn check_flags(tms: &TruthMaintenanceSystem, hs: &[FactHandle], m: &Model, step: usize, op: &Op, raw: &[usize]) -> Option<Verdict> {
    for f in 0..m.n() {
        if raw.contains(&f) {
            continue;
        }
        let h = hs[f];
        let hvj = tms.has_valid_justification(h);
        if m.live[f] {
            if tms.is_explicit(h) != m.explicit[f] {
                return Some(Verdict::fail(
                    "is-explicit-mismatch",
                    format!("step {} ({:?}): live f{} is_explicit={} but it was {}inserted explicitly", step, op, f, tms.is_explicit(h), if m.explicit[f] { "" } else { "not " }),
                ));
            }
            if tms.is_logical(h) != m.has_logical(f) {
                return Some(Verdict::fail(
                    "is-logical-mismatch",
                    format!("step {} ({:?}): live f{} is_logical={} but it has {} logical justification", step, op, f, tms.is_logical(h), if m.has_logical(f) { "a" } else { "no" }),
                ));
            }
            if !hvj {
                return Some(Verdict::fail(
                    "hvj-false-for-live-fact",
                    format!("step {} ({:?}): f{} is live and supported in the model but has_valid_justification is false", step, op, f),
                ));
            }
        }
        // a fact without explicit justification: the engine's notion of support must be the statement's
        if !m.explicit[f] && hvj != m.supported(f) {
            return Some(Verdict::fail(
                if hvj { "hvj-true-without-support" } else { "hvj-false-with-support" },
                format!(
                    "step {} ({:?}): logically inserted f{} (live={}): has_valid_justification={} but model support={}",
                    step,
                    op,
                    f,
                    m.live[f],
                    hvj,
                    m.supported(f)
                ),
            ));
        }
    }
    None
}

fn data(i: usize) -> TypedFacts {
    let mut t = TypedFacts::new();
    t.set("id", FactValue::Integer(i as i64));
    t
}

// ---------------------------------------------------------------------------
// part 1: the engine (working memory + TMS)
// ---------------------------------------------------------------------------

pub fn run_engine(s: &mut Src, ctx: &mut Ctx) -> Verdict {
    let (shape, ops) = gen(s, ctx.exh);
    if probe_only() {
        return Verdict::Pass;
    }
    // drawn last: one engine in six is not new - unrelated facts were inserted before (every second one retracted
    // again), so that the history's handles lie beyond a round number and older retractions are on record
    let warm = if ctx.exh == 0 && s.chance(1, 6) { crate::c17::warm_count(s) } else { 0 };
    // A plain fact can also be put straight into the engine's working memory (`working_memory_mut().insert`, what a
    // stream source does): the truth maintenance then never heard of it, yet it is a present fact, a legal premise,
    // and its retraction must cascade like any other. Every plain insert at a step = 2 (mod 3) takes that road.
    let raw_list = raw_facts(&ops);
    let raw_txt = if raw_list.is_empty() { String::new() } else { format!("; put straight into working_memory_mut(): {:?}", raw_list.iter().map(|f| format!("f{}", f)).collect::<Vec<_>>()) };
    ctx.describe(|| if warm > 0 { format!("engine after {} unrelated warm-up facts (every second retracted); {}{}", warm, show(&ops), raw_txt) } else { format!("{}{}", show(&ops), raw_txt) });
    if !raw_list.is_empty() {
        ctx.label("fact-put-straight-into-working-memory");
    }
    let mut eng = crate::core::new_or_default(IncrementalEngine::new);
    for w in 0..warm {
        let h = eng.insert_explicit("Warm".to_string(), data(1000 + w));
        if w % 2 == 1 {
            let _ = eng.retract(h);
        }
    }
    if warm > 0 {
        ctx.label("engine-not-new(warm-up-facts)");
    }
    let mut hs: Vec<FactHandle> = Vec::new();
    let mut m = Model::default();
    let mut cl = Classes::default();
    for (step, op) in ops.iter().enumerate() {
        let before = m.live.clone();
        let mut new_fact = None;
        match op {
            Op::Ins(plain) => {
                let i = hs.len();
                let h = if raw_list.contains(&i) {
                    eng.working_memory_mut().insert("Base".to_string(), data(i))
                } else if *plain {
                    eng.insert("Base".to_string(), data(i))
                } else {
                    eng.insert_explicit("Base".to_string(), data(i))
                };
                new_fact = Some(h);
            }
            Op::Log(p) => {
                let i = hs.len();
                // the order in which premises are LISTED carries no meaning: every second step lists them backwards
                let mut prem: Vec<FactHandle> = p.iter().map(|&q| hs[q]).collect();
                if step % 2 == 1 {
                    prem.reverse();
                }
                new_fact = Some(eng.insert_logical("Derived".to_string(), data(i), rule_of(i, step), prem));
            }
            Op::Just(t, p) => {
                let mut prem: Vec<FactHandle> = p.iter().map(|&q| hs[q]).collect();
                if step % 2 == 1 {
                    prem.reverse();
                }
                dup_premises(&mut prem, step);
                eng.tms_mut().add_logical_justification(hs[*t], rule_of(*t, step), prem);
            }
            Op::Ret(x) => {
                // Ok/Err is not judged: the statement speaks about which facts are present
                let _ = eng.retract(hs[*x]);
            }
        }
        if let Some(h) = new_fact {
            if hs.contains(&h) {
                return Verdict::fail("handle-reused", format!("step {} ({:?}): insertion returned handle {} which names an earlier fact", step, op, h));
            }
            hs.push(h);
        }
        let info = m.apply(op);
        // presence of every handle ever issued
        for f in 0..m.n() {
            let present = eng.working_memory().get(&hs[f]).is_some();
            if present == m.live[f] {
                continue;
            }
            let (sig, what) = match op {
                Op::Ret(x) if f == *x => ("retract-target-still-present", "the retracted fact itself is still in working memory".to_string()),
                Op::Ret(_) if present => (
                    "cascade-missed",
                    format!("f{} lost its last support in this call (explicit={}, supported={}) but is still in working memory", f, m.explicit[f], m.supported(f)),
                ),
                Op::Ret(_) if m.explicit[f] => ("explicit-fact-removed-by-cascade", format!("explicitly inserted f{} was not retracted but is gone", f)),
                Op::Ret(_) => ("supported-fact-removed", format!("f{} still has a justification whose premises are all present but is gone", f)),
                _ if f + 1 == m.n() && new_fact.is_some() => ("inserted-fact-absent", format!("new fact f{} is not in working memory", f)),
                _ => ("insertion-changed-other-fact", format!("f{} was {} before this call", f, if before.get(f).copied().unwrap_or(false) { "present" } else { "absent" })),
            };
            return Verdict::fail(
                sig,
                format!("step {} ({:?}): {}; working_memory().get(f{}).is_some()={} model={} | history: {}", step, op, what, f, present, m.live[f], show(&ops[..=step])),
            );
        }
        if let Some(v) = check_flags(eng.tms(), &hs, &m, step, op, &raw_list) {
            return v;
        }
        classify(ctx, &mut cl, op, &m, &info);
    }
    finish(ctx, &cl, shape, &ops);
    Verdict::Pass
}

// ---------------------------------------------------------------------------
// part 2: the bare TMS — return value of retract_with_cascade
// ---------------------------------------------------------------------------

pub fn run_tms(s: &mut Src, ctx: &mut Ctx) -> Verdict {
    let (shape, ops) = gen(s, ctx.exh);
    if probe_only() {
        return Verdict::Pass;
    }
    let warm = if ctx.exh == 0 && s.chance(1, 6) { crate::c17::warm_count(s) } else { 0 };
    ctx.describe(|| if warm > 0 { format!("TMS whose handles start at {} after {} unrelated facts (every second retracted); {}", warm + 1, warm, show(&ops)) } else { show(&ops) });
    let mut tms = crate::core::new_or_default(TruthMaintenanceSystem::new);
    for w in 0..warm {
        let h = FactHandle::new(w as u64 + 1);
        tms.add_explicit_justification(h);
        if w % 2 == 1 {
            let _ = tms.retract_with_cascade(h);
        }
    }
    if warm > 0 {
        ctx.label("tms-not-new(warm-up-facts)");
    }
    let off = warm as u64;
    let mut hs: Vec<FactHandle> = Vec::new();
    let raw_list = raw_facts(&ops);
    let mut m = Model::default();
    let mut cl = Classes::default();
    for (step, op) in ops.iter().enumerate() {
        let mut returned: Option<Vec<FactHandle>> = None;
        match op {
            Op::Ins(plain) => {
                let h = FactHandle::new(off + hs.len() as u64 + 1);
                // (a fact the caller holds but never registered -- see run_engine -- is a premise like any other)
                let _ = plain;
                if !raw_list.contains(&hs.len()) {
                    tms.add_explicit_justification(h);
                }
                hs.push(h);
            }
            Op::Log(p) => {
                let h = FactHandle::new(off + hs.len() as u64 + 1);
                tms.add_logical_justification(h, rule_of(hs.len(), step), p.iter().map(|&q| hs[q]).collect());
                hs.push(h);
            }
            Op::Just(t, p) => {
                let mut prem: Vec<FactHandle> = p.iter().map(|&q| hs[q]).collect();
                dup_premises(&mut prem, step);
                tms.add_logical_justification(hs[*t], rule_of(*t, step), prem);
            }
            Op::Ret(x) => {
                returned = Some(tms.retract_with_cascade(hs[*x]));
            }
        }
        let info = m.apply(op);
        if let (Op::Ret(x), Some(ret), Some(i)) = (op, &returned, &info) {
            // "the set returned by the cascade plus x equals the model's removed set"
            let mut got: Vec<usize> = Vec::new();
            for h in ret {
                match hs.iter().position(|k| k == h) {
                    Some(f) => {
                        if f != *x && !got.contains(&f) {
                            got.push(f)
                        }
                    }
                    None => {
                        return Verdict::fail("cascade-returns-unknown-handle", format!("step {} ({:?}): returned {} which was never issued", step, op, h));
                    }
                }
            }
            got.sort_unstable();
            let mut want: Vec<usize> = i.removed.iter().copied().filter(|f| f != x).collect();
            want.sort_unstable();
            if got != want {
                let missing: Vec<usize> = want.iter().copied().filter(|f| !got.contains(f)).collect();
                let extra: Vec<usize> = got.iter().copied().filter(|f| !want.contains(f)).collect();
                let sig = if !extra.is_empty() {
                    if extra.iter().any(|&f| m.explicit[f]) {
                        "cascade-returns-explicit-fact"
                    } else if extra.iter().any(|&f| !m.live[f]) {
                        "cascade-returns-already-absent-fact"
                    } else {
                        "cascade-returns-supported-fact"
                    }
                } else {
                    "cascade-return-misses-unsupported-fact"
                };
                return Verdict::fail(
                    sig,
                    format!(
                        "step {} ({:?}): retract_with_cascade returned facts {:?}, the model removes {:?} besides the target (missing {:?}, extra {:?}) | history: {}",
                        step,
                        op,
                        got,
                        want,
                        missing,
                        extra,
                        show(&ops[..=step])
                    ),
                );
            }
        }
        if let Some(v) = check_flags(&tms, &hs, &m, step, op, &raw_list) {
            return v;
        }
        classify(ctx, &mut cl, op, &m, &info);
    }
    if !raw_list.is_empty() {
        ctx.label("premise-never-registered-with-the-tms");
    }
    finish(ctx, &cl, shape, &ops);
    Verdict::Pass
}

/// A premise LIST may name a fact more than once (a rule whose two patterns matched the same fact): the justification
/// needs that fact once. On every third step a one- or two-premise list is padded with a repetition of its first
/// entry (so `[A]` arrives as `[A, A]`, the length of an earlier `[A, B]`). A pure function of the step: no draw.
fn dup_premises(prem: &mut Vec<FactHandle>, step: usize) {
    if step % 3 == 0 && !prem.is_empty() && prem.len() <= 2 {
        prem.push(prem[0]);
    }
}

/// Source rule of a justification. All justifications of one fact name the same rule (a rule that derives the same
/// fact again from other premises is the ordinary case, and the one in which "same rule" shortcuts go wrong); facts
/// with an index divisible by three get a rule name per step instead, so that distinct names occur as well.
/// A pure function of the case: no draw.
fn rule_of(fact: usize, step: usize) -> String {
    if fact % 3 == 0 {
        format!("rule{}", step)
    } else {
        format!("rule-of-{}", fact % 2)
    }
}

pub fn property() -> Property {
    Property {
        id: "C08",
        level: "exploration",
        rule: "generated: histories of <= 10 operations over <= 7 facts: insert/insert_explicit (a plain insert at a step = 2 mod 3 goes straight into working_memory_mut() resp. is never registered with the bare TMS: present, a legal premise, its retraction cascades; only presence / the returned cascade is judged for it), insert_logical(1-3 live premises), tms_mut().add_logical_justification(live fact, 1-3 live premises created before it), retract(any handle ever issued, live or already absent); the justifications of one fact name the same source rule (two facts in three) or a rule per step; about two thirds start from a chain / and-diamond / or-diamond / two-justifications-sharing-a-premise / explicit-fact-with-extra-logical-justification prefix. Exhaustive parts enumerate every such history of exactly N operations (all prefixes are checked on the way) over <= F facts with <= P premises per justification (part name exhNFP, e.g. exh942 = 9 operations, 4 facts, 2 premises; exh1032 = 10 operations, 3 facts). Oracle: model from the statement (live set + justification list; retract removes the target, then to a fixpoint every fact with no explicit justification and no justification whose premises are all live). engine-* parts: after every operation working_memory().get(h).is_some() == model liveness for every handle ever issued, is_explicit/is_logical agree for live facts, has_valid_justification is true for live facts and equals model support for facts without explicit justification. tms-* parts: the set returned by retract_with_cascade (minus the target) equals the set the model removes besides the target, plus the same flag checks. Non-trivial: the history contains a retraction of a live fact that removes >= 2 facts, or leaves a fact alive only through another (second logical or explicit) justification after one of its justifications became invalid, or targets a derived fact; distinct by operation sequence. Every third add_justification pads a 1-2 premise list with a repetition of its first entry (a premise list may name a fact twice; the justification needs it once). The object under test is built with new() or with default() in turn (by a hash of the case's data, no draw).",
        assumptions: vec![
            "a derived fact that is itself the target of retract() is absent afterwards even if its premises are still present (the statement's 'exactly when' is read for facts that were not retracted directly)".into(),
            "support graphs are acyclic: an added justification only uses premises created before the justified fact".into(),
            "premise lists are sets (no handle repeated inside one justification); no rules are loaded, so no rule action interferes".into(),
            "Ok/Err returned by IncrementalEngine::retract is not judged; retract of an already absent handle must change nothing".into(),
        ],
        parts: vec![
            Part { name: "engine-random", run: run_engine, quick: Budget::Random { cases: 3_000_000, bytes: 90 }, thorough: Budget::Random { cases: 15_000_000, bytes: 90 }, min_nontrivial_pct: 30 },
            Part { name: "tms-random", run: run_tms, quick: Budget::Random { cases: 3_000_000, bytes: 90 }, thorough: Budget::Random { cases: 15_000_000, bytes: 90 }, min_nontrivial_pct: 30 },
            // exhNFP: every history of exactly N operations over <= F facts with <= P premises per justification
            Part { name: "engine-exh842", run: run_engine, quick: Budget::Exhaustive { param: 842 }, thorough: Budget::Skip, min_nontrivial_pct: 0 },
            Part { name: "tms-exh842", run: run_tms, quick: Budget::Exhaustive { param: 842 }, thorough: Budget::Skip, min_nontrivial_pct: 0 },
            Part { name: "engine-exh1032", run: run_engine, quick: Budget::Exhaustive { param: 1032 }, thorough: Budget::Exhaustive { param: 1032 }, min_nontrivial_pct: 0 },
            Part { name: "tms-exh1032", run: run_tms, quick: Budget::Exhaustive { param: 1032 }, thorough: Budget::Exhaustive { param: 1032 }, min_nontrivial_pct: 0 },
            Part { name: "engine-exh673", run: run_engine, quick: Budget::Exhaustive { param: 673 }, thorough: Budget::Skip, min_nontrivial_pct: 0 },
            Part { name: "tms-exh673", run: run_tms, quick: Budget::Exhaustive { param: 673 }, thorough: Budget::Skip, min_nontrivial_pct: 0 },
            Part { name: "engine-exh942", run: run_engine, quick: Budget::Skip, thorough: Budget::Exhaustive { param: 942 }, min_nontrivial_pct: 0 },
            Part { name: "tms-exh942", run: run_tms, quick: Budget::Skip, thorough: Budget::Exhaustive { param: 942 }, min_nontrivial_pct: 0 },
            Part { name: "engine-exh852", run: run_engine, quick: Budget::Skip, thorough: Budget::Exhaustive { param: 852 }, min_nontrivial_pct: 0 },
            Part { name: "tms-exh852", run: run_tms, quick: Budget::Skip, thorough: Budget::Exhaustive { param: 852 }, min_nontrivial_pct: 0 },
            Part { name: "engine-exh773", run: run_engine, quick: Budget::Skip, thorough: Budget::Exhaustive { param: 773 }, min_nontrivial_pct: 0 },
            Part { name: "tms-exh773", run: run_tms, quick: Budget::Skip, thorough: Budget::Exhaustive { param: 773 }, min_nontrivial_pct: 0 },
        ],
        watchdog: true,
        replay_reps: 1,
    }
}
