use rre_verif::core::*;
use rre_verif::typed::*;
use rre_verif::c01::*;
fn main() {
    let mut seen = std::collections::HashMap::<String, usize>::new();
    let mut shown = 0;
    for seed in 0..3000u64 {
        let mut bytes = vec![0u8; 200];
        let mut x = seed;
        for b in bytes.iter_mut() { x = splitmix(x); *b = (x >> 32) as u8; }
        let mut s = Src::bytes(&bytes);
        let cfg = GenCfg::full();
        // single rule with a single atom or small cond
        let cond = gen_cond(&mut s, &cfg, 4);
        let act = gen_assign(&mut s, &cfg);
        let r = RuleAst { name: "R0".into(), salience: 10, no_loop: false, cond, actions: vec![act] };
        let text = r.grl();
        match rust_rule_engine::GRLParser::parse_rules(&text) {
            Err(e) => { if shown < 12 { println!("PARSE-ERR {}\n{}", e, text); shown += 1; } *seen.entry("err".into()).or_default() += 1; }
            Ok(p) => {
                if p.len() != 1 || !rule_matches(&r, &p[0]) {
                    *seen.entry("mismatch".into()).or_default() += 1;
                    if shown < 12 { println!("MISMATCH\n{}  parsed: {:?}\n  actions: {:?}", text, p.get(0).map(|x| &x.conditions), p.get(0).map(|x| &x.actions)); shown += 1; }
                }
            }
        }
    }
    println!("{:?}", seen);
}
