use std::time::Instant;
fn main() {
    let text = r#"rule "R0" salience 50 {
  when
    A.x >= 3 && (B.s contains "ab" || !(C.n == 2))
  then
    A.y = A.x + 1;
    B.t = "abc";
}
rule "R1" salience 40 {
  when
    A.x + 1 > 3
  then
    A.y = 2;
}
"#;
    let t = Instant::now();
    for _ in 0..200 { let _ = rust_rule_engine::GRLParser::parse_rules(text).unwrap(); }
    println!("parse_rules: {:?} per call", t.elapsed() / 200);
    let rules = rust_rule_engine::GRLParser::parse_rules(text).unwrap();
    let t = Instant::now();
    for _ in 0..200 {
        let kb = rust_rule_engine::KnowledgeBase::new("kb");
        for r in rules.clone() { kb.add_rule(r).unwrap(); }
        let mut e = rust_rule_engine::RustRuleEngine::with_config(kb, rust_rule_engine::EngineConfig{max_cycles:1, timeout:None, enable_stats:false, debug_mode:false});
        let f = rust_rule_engine::Facts::new();
        let mut m = std::collections::HashMap::new(); m.insert("x".to_string(), rust_rule_engine::Value::Integer(5));
        f.add_value("A", rust_rule_engine::Value::Object(m)).unwrap();
        let _ = e.execute(&f);
    }
    println!("build+execute: {:?} per call", t.elapsed() / 200);
}
