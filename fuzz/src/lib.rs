//! Shared oracle of the C05 libFuzzer targets.
//!
//! * bytes → text exactly as in the harness (`c05::fuzz_prepare`: lossy UTF-8, ≤ 4 KiB, matched bracket
//!   nesting ≤ 32, exclusion switches of the listed known findings);
//! * the call runs on libFuzzer's main thread (default 8 MiB stack) under `catch_unwind`;
//! * the panic hook installed by libfuzzer-sys (print + abort) is replaced: a panic whose location matches
//!   the signature of a `known:` line of KNOWN_FINDINGS.txt (compiled in) is counted and the run
//!   continues; any other panic prints its site and aborts, so libFuzzer saves the input as an artifact;
//! * a hang is libFuzzer's `-timeout`, a stack overflow is ASan's report; both leave an artifact.

use rre_verif::c05::{self, Target, ALL_TARGETS};
use rre_verif::findings::sig_matches;
use std::sync::atomic::{AtomicU64, Ordering};
use std::sync::Once;

/// the findings file of the verification machinery, two levels above this file in both layouts
/// (/verif/fuzz/src/lib.rs → /verif/KNOWN_FINDINGS.txt)
const KNOWN_FINDINGS: &str = include_str!("../../KNOWN_FINDINGS.txt");

pub static KNOWN_PANICS: AtomicU64 = AtomicU64::new(0);

/// (id, sig glob) of every `known: property=C05 …` line
fn known_lines() -> Vec<(String, String)> {
    let mut v = Vec::new();
    for line in KNOWN_FINDINGS.lines() {
        let line = line.trim();
        let rest = match line.strip_prefix("known:") {
            Some(r) => r,
            None => continue,
        };
        let mut prop = "";
        let mut id = "";
        let mut sig = "";
        for w in rest.split(' ') {
            if let Some(x) = w.strip_prefix("property=") {
                prop = x;
            } else if let Some(x) = w.strip_prefix("id=") {
                id = x;
            } else if let Some(x) = w.strip_prefix("sig=") {
                sig = x;
            }
        }
        if prop == "C05" {
            v.push((id.to_string(), sig.to_string()));
        }
    }
    v
}

/// the location format of the harness (`core::install_panic_hook`): path relative to the crate
fn site(loc: &std::panic::Location<'_>) -> String {
    let f = loc.file();
    let f = f.rsplit_once("/repo/").map(|x| x.1).unwrap_or(f);
    let f = match f.find("/registry/src/") {
        Some(i) => {
            let rest = &f[i + "/registry/src/".len()..];
            rest.split_once('/').map(|x| x.1).unwrap_or(rest)
        }
        None => f,
    };
    // the engine as a path dependency shows up relative to its own root (src/…) or with an absolute path
    let f = match f.find("/src/") {
        Some(i) if f.starts_with('/') => &f[i + 1..],
        _ => f,
    };
    format!("{}:{}", f, loc.line())
}

static INIT: Once = Once::new();

fn init() {
    INIT.call_once(|| {
        let known = known_lines();
        c05::set_listed_ids(known.iter().map(|k| k.0.clone()).collect());
        let sigs: Vec<String> = known.into_iter().map(|k| k.1).collect();
        std::panic::set_hook(Box::new(move |info| {
            let at = info.location().map(site).unwrap_or_else(|| "?".into());
            let sig = format!("panic@{}", at);
            if sigs.iter().any(|g| sig_matches(g, &sig)) {
                KNOWN_PANICS.fetch_add(1, Ordering::Relaxed);
                return; // unwinds into `run`, the campaign continues
            }
            eprintln!("C05-FUZZ unknown panic site {}: {}", sig, info);
            std::process::abort();
        }));
    });
}

pub fn target(name: &str) -> Target {
    *ALL_TARGETS.iter().find(|t| t.name() == name).unwrap_or_else(|| panic!("unknown C05 target {}", name))
}

pub fn run(name: &str, data: &[u8]) {
    init();
    let t = target(name);
    let text = match c05::fuzz_prepare(t, data) {
        Some(x) => x,
        None => return,
    };
    // a panic at a known site lands here; an unknown one never returns from the hook
    let _ = std::panic::catch_unwind(|| c05::call(t, &text));
}
