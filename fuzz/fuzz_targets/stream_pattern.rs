#![no_main]
// libFuzzer target for the entry point `stream_pattern` (see rre_verif::c05::Target); oracle in rre_fuzz::run.
libfuzzer_sys::fuzz_target!(|data: &[u8]| {
    rre_fuzz::run("stream_pattern", data);
});
