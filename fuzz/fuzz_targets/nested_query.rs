#![no_main]
// libFuzzer target for the entry point `nested_query` (see rre_verif::c05::Target); oracle in rre_fuzz::run.
libfuzzer_sys::fuzz_target!(|data: &[u8]| {
    rre_fuzz::run("nested_query", data);
});
