#![no_main]
// libFuzzer target for the entry point `parse_rule` (see rre_verif::c05::Target); oracle in rre_fuzz::run.
libfuzzer_sys::fuzz_target!(|data: &[u8]| {
    rre_fuzz::run("parse_rule", data);
});
