#!/bin/bash
# run_fuzz.sh <target> <runs> <seed> [seeds|empty]
#
# One libFuzzer campaign for property C05 on one parser entry point, from a fresh copy of the committed
# seed corpus (or from an empty corpus). The oracle is inside the target (src/lib.rs): panics at the sites
# listed as `known:` in ../KNOWN_FINDINGS.txt are tolerated there, so every artifact libFuzzer saves is an
# unknown panic site, a stack overflow / abort (ASan), or an input that ran longer than 120 s.
#
# exit 0  campaign finished, no artifact
# exit 1  VIOLATION property=C05 replay=<artifact>   (artifact copied to artifacts/<target>/)
# exit 2  inconclusive (build failure, out of memory, fuzzer did not run)
set -u
here=$(cd "$(dirname "$0")" && pwd)
cd "$here" || exit 2
target=${1:?target}; runs=${2:?runs}; seed=${3:?seed}; start=${4:-seeds}
export CARGO_NET_OFFLINE=true

case "$target" in
  parse_rules|parse_rule|parse_with_modules) lang=grl ;;
  query_parser|expression_parser)            lang=bexpr ;;
  grl_query|grl_queries)                     lang=grlq ;;
  aggregate_query)                           lang=agg ;;
  disjunction)                               lang=disj ;;
  nested_query)                              lang=nest ;;
  stream_pattern|stream_join|window_spec)    lang=stream ;;
  evaluate_expression)                       lang=eval ;;
  *) echo "run_fuzz: unknown target $target"; exit 2 ;;
esac

if ! out=$(cargo +nightly fuzz build --fuzz-dir . "$target" 2>&1); then
  echo "run_fuzz: build failed"; echo "$out" | tail -40; exit 2
fi

work=$(mktemp -d "${TMPDIR:-/tmp}/c05fuzz.$target.XXXXXX") || exit 2
trap 'rm -rf "$work"' EXIT
mkdir -p "$work/corpus" "$work/art"
if [ "$start" = seeds ]; then cp "seeds/$lang"/* "$work/corpus/" 2>/dev/null; fi

log="$work/log"
cargo +nightly fuzz run --fuzz-dir . "$target" "$work/corpus" -- \
  -runs="$runs" -seed="$seed" -max_len=4096 -len_control=0 -timeout=120 -rss_limit_mb=4096 \
  -dict="dict/$lang.dict" -artifact_prefix="$work/art/" -print_final_stats=1 >"$log" 2>&1
status=$?

execs=$(grep -o 'stat::number_of_executed_units: *[0-9]*' "$log" | grep -o '[0-9]*$' | tail -1)
cov=$(grep -o 'cov: [0-9]*' "$log" | tail -1 | grep -o '[0-9]*')
ft=$(grep -o 'ft: [0-9]*' "$log" | tail -1 | grep -o '[0-9]*')
units=$(ls "$work/corpus" | wc -l)
echo "C05-FUZZ target=$target start=$start seed=$seed runs_asked=$runs executions=${execs:-?} corpus_units=$units covered_edges=${cov:-?} features=${ft:-?} libfuzzer_exit=$status"

found=0
for a in "$work"/art/*; do
  [ -e "$a" ] || continue
  base=$(basename "$a")
  case "$base" in
    oom-*)
      echo "run_fuzz: out of memory on $base (inconclusive: the statement does not mention memory)"
      mkdir -p "artifacts/$target"; cp "$a" "artifacts/$target/$base"
      [ $found -eq 0 ] && found=2 ;;
    crash-*|timeout-*|leak-*|slow-unit-*)
      [ "${base#slow-unit-}" != "$base" ] && continue   # slow units are informational
      mkdir -p "artifacts/$target"
      keep="artifacts/$target/$base"
      cp "$a" "$keep"
      if [ "${base#crash-}" != "$base" ]; then
        # libFuzzer's minimiser (cargo fuzz tmin). Known sites are tolerated inside the target, so whatever
        # still crashes is an unknown site; the smaller input is kept next to the original.
        before=$(ls "artifacts/$target" | sort)
        small=$(cargo +nightly fuzz tmin --fuzz-dir . -r 5000 "$target" "$keep" 2>&1 | grep -A2 '^Minimized artifact:' | grep -o 'artifacts/[^ ]*' | tail -1)
        if [ -n "$small" ] && [ -s "$small" ]; then cp "$small" "$keep.min"; fi
        for f in $(ls "artifacts/$target" | sort | comm -13 <(echo "$before") -); do
          [ "artifacts/$target/$f" = "$keep.min" ] || rm -f "artifacts/$target/$f"
        done
        [ -s "$keep.min" ] && keep="$keep.min"
      fi
      # the same input as a replay file of the harness: ./check C05 --replay <file>.json
      python3 - "$target" "$keep" > "$keep.json" <<'PY'
import json, sys
targets = ["parse_rules", "parse_rule", "parse_with_modules", "query_parser", "expression_parser", "grl_query", "grl_queries",
           "aggregate_query", "disjunction", "nested_query", "stream_pattern", "stream_join", "window_spec", "evaluate_expression"]
data = open(sys.argv[2], "rb").read()[:4096]
print(json.dumps({"property": "C05", "part": "text", "kind": "choices", "exh": 0, "no_exclusions": False,
                  "data": [targets.index(sys.argv[1]), len(data)] + list(data), "sig": "from-libfuzzer", "case": ""}))
PY
      echo "VIOLATION property=C05 replay=$here/$keep"
      why=$(grep -E 'C05-FUZZ unknown panic site|ERROR: AddressSanitizer|ERROR: libFuzzer' "$log" | head -1 | cut -c1-300)
      echo "  target=$target ${why:-the fuzzer saved $base}"
      found=1 ;;
  esac
done

if [ $found -eq 1 ]; then exit 1; fi
if [ $found -eq 2 ]; then exit 2; fi
if [ $status -ne 0 ]; then
  echo "run_fuzz: libFuzzer exited with $status and left no artifact"; tail -15 "$log"; exit 2
fi
exit 0
